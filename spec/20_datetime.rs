// Abstract views of the two date-time types (refer to the extracted /repo structs)

spec fn utc_wf(dt: UtcDateTime) -> bool {
    &&& valid_date(dt.year as int, dt.month as int, dt.month_day as int)
    &&& dt.hour < 24
    &&& dt.minute < 60
    &&& dt.second <= 60
}

spec fn utc_secs(dt: UtcDateTime) -> int {
    secs(dt.year as int, dt.month as int, dt.month_day as int, dt.hour as int, dt.minute as int, dt.second as int)
}

// argument validity as stated by C02 / C14 / C16
spec fn valid_inputs(year: int, month: int, month_day: int, hour: int, minute: int, second: int, nanoseconds: int) -> bool {
    &&& valid_date(year, month, month_day)
    &&& 0 <= hour <= 23
    &&& 0 <= minute <= 59
    &&& 0 <= second <= 60
    &&& 0 <= nanoseconds < 1000000000
}

spec fn dt_fields_wf(dt: DateTime) -> bool {
    &&& valid_date(dt.year as int, dt.month as int, dt.month_day as int)
    &&& dt.hour < 24
    &&& dt.minute < 60
    &&& dt.second <= 60
}

spec fn dt_secs(dt: DateTime) -> int {
    secs(dt.year as int, dt.month as int, dt.month_day as int, dt.hour as int, dt.minute as int, dt.second as int)
}

// C14 representation invariant: the fields are the UTC calendar fields of (unix_time + ut_offset),
// second 60 standing for second 0 of the next minute (secs() counts it as +60)
spec fn dt_inv(dt: DateTime) -> bool {
    &&& dt_fields_wf(dt)
    &&& dt_secs(dt) == dt.unix_time as int + dt.local_time_type.ut_offset as int
}
