// S-RULE: POSIX daylight-saving rules (C04, C11).  Written from POSIX / RFC 8536 and the property text.

spec fn rd_wf(d: RuleDay) -> bool {
    match d {
        RuleDay::Julian1WithoutLeap(j) => 1 <= j.0 <= 365,
        RuleDay::Julian0WithLeap(j) => j.0 <= 365,
        RuleDay::MonthWeekDay(m) => mwd_wf(m),
    }
}

spec fn mwd_wf(m: MonthWeekDay) -> bool {
    1 <= m.month <= 12 && 1 <= m.week <= 5 && m.week_day <= 6
}

// Mm.w.d: day d of month m in year y is the w-th occurrence of weekday wd (w = 5: the last one)
spec fn is_mwd_day(y: int, m: int, w: int, wd: int, d: int) -> bool {
    &&& 1 <= d <= dim(m, leap(y))
    &&& weekday(days_civil(y, m, d)) == wd
    &&& if w == 5 { d > dim(m, leap(y)) - 7 } else { 7 * (w - 1) < d <= 7 * w }
}

spec fn mwd_day(y: int, m: int, w: int, wd: int) -> int {
    choose|d: int| is_mwd_day(y, m, w, wd, d)
}

// day number (days since 1970-01-01) of the rule day in year y
//   Jn : the n-th day of the year, 1 <= n <= 365, leap days not counted (Feb 29 cannot be named)
//   n  : zero-based day of the year, 0 <= n <= 365, leap days counted (365 in a common year = Jan 1 of y+1)
//   Mm.w.d : see is_mwd_day
spec fn rule_daynum(d: RuleDay, y: int) -> int {
    match d {
        RuleDay::Julian1WithoutLeap(j) => dby(y) + j.0 - 1 + (if leap(y) && j.0 >= 60 { 1int } else { 0 }),
        RuleDay::Julian0WithLeap(j) => dby(y) + j.0,
        RuleDay::MonthWeekDay(m) => days_civil(y, m.month as int, mwd_day(y, m.month as int, m.week as int, m.week_day as int)),
    }
}

// DST start instant of year y: start day at start time read on the standard-time clock
spec fn alt_s(a: AlternateTime, y: int) -> int {
    rule_daynum(a.dst_start, y) * 86400 + a.dst_start_time - a.std.ut_offset
}

// DST end instant of year y: end day at end time read on the daylight-time clock
spec fn alt_e(a: AlternateTime, y: int) -> int {
    rule_daynum(a.dst_end, y) * 86400 + a.dst_end_time - a.dst.ut_offset
}

spec fn start_first(a: AlternateTime) -> bool {
    forall|y: int| alt_s(a, y) <= #[trigger] alt_e(a, y)
}

spec fn end_first(a: AlternateTime) -> bool {
    forall|y: int| alt_e(a, y) <= #[trigger] alt_s(a, y)
}

// C11: the relative order of start and end is the same in every year, for the three relations
spec fn order_stable(a: AlternateTime) -> bool {
    &&& (start_first(a) || end_first(a))
    &&& ((forall|y: int| #[trigger] alt_e(a, y) <= alt_s(a, y + 1)) || (forall|y: int| alt_s(a, y + 1) <= #[trigger] alt_e(a, y)))
    &&& ((forall|y: int| #[trigger] alt_s(a, y) <= alt_e(a, y + 1)) || (forall|y: int| alt_e(a, y + 1) <= #[trigger] alt_s(a, y)))
}

spec fn alt_ranges_ok(a: AlternateTime) -> bool {
    &&& -90000 < a.std.ut_offset < 93600
    &&& -90000 < a.dst.ut_offset < 93600
    &&& -604800 < a.dst_start_time < 604800
    &&& -604800 < a.dst_end_time < 604800
}

// type invariant established by AlternateTime::new
spec fn alt_wf(a: AlternateTime) -> bool {
    &&& ltt_wf(a.std)
    &&& ltt_wf(a.dst)
    &&& rd_wf(a.dst_start)
    &&& rd_wf(a.dst_end)
    &&& alt_ranges_ok(a)
    &&& order_stable(a)
}

spec fn rule_wf(r: TransitionRule) -> bool {
    match r {
        TransitionRule::Fixed(t) => ltt_wf(t),
        TransitionRule::Alternate(a) => alt_wf(a),
    }
}

// C04: on daylight time exactly inside a period that starts at a year's DST-start instant and ends at the
// following DST-end instant, start inclusive, end exclusive.  If the start never comes after the end of the same
// year the periods are [S(y), E(y)); otherwise (end first, e.g. southern hemisphere) they are [S(y), E(y+1)).
// (When S(y) = E(y) in every year both readings of the property's quantifier apply; the first one - empty
// periods, never DST - is taken, which is also what the code does.)
spec fn in_dst(a: AlternateTime, u: int) -> bool {
    if start_first(a) {
        exists|y: int| alt_s(a, y) <= u < #[trigger] alt_e(a, y)
    } else {
        exists|y: int| #[trigger] alt_s(a, y) <= u < alt_e(a, y + 1)
    }
}

// the two interleaving patterns named by C04's quantifier
spec fn interleaving(a: AlternateTime) -> bool {
    ||| (forall|y: int| alt_s(a, y) <= #[trigger] alt_e(a, y) && alt_e(a, y) <= alt_s(a, y + 1))
    ||| (forall|y: int| alt_e(a, y) <= #[trigger] alt_s(a, y) && alt_s(a, y) <= alt_e(a, y + 1))
}

// instants whose year is within [i32::MIN + 2, i32::MAX - 2]
spec fn alt_u_ok(u: int) -> bool {
    dby(-2147483646) * 86400 <= u < dby(2147483646) * 86400
}

// the calendar year containing u
spec fn year_is(u: int, c: int) -> bool {
    dby(c) * 86400 <= u < dby(c + 1) * 86400
}

// KNOWN FINDING F2 (see known_findings.json): end-first rules in a year where start and end coincide.
// The contract of the rule evaluator is silent on exactly this class.
spec fn alt_defect_class(a: AlternateTime, u: int) -> bool {
    !start_first(a) && exists|c: int| #[trigger] year_is(u, c) && alt_s(a, c) == alt_e(a, c)
}

// what C04 lets the rule evaluation answer
spec fn alt_answer(a: AlternateTime, u: int, lt: LocalTimeType) -> bool {
    &&& alt_u_ok(u)
    &&& (lt == a.dst || lt == a.std)
    &&& (!alt_defect_class(a, u) ==> lt == (if in_dst(a, u) { a.dst } else { a.std }))
}

spec fn rule_answer(r: TransitionRule, u: int, lt: LocalTimeType) -> bool {
    match r {
        TransitionRule::Fixed(t) => lt == t,
        TransitionRule::Alternate(a) => alt_answer(a, u, lt),
    }
}

spec fn rule_refuses(r: TransitionRule, u: int) -> bool {
    match r {
        TransitionRule::Fixed(t) => false,
        TransitionRule::Alternate(a) => !alt_u_ok(u),
    }
}

spec fn rule_defect_class(r: TransitionRule, u: int) -> bool {
    match r {
        TransitionRule::Fixed(t) => false,
        TransitionRule::Alternate(a) => alt_defect_class(a, u),
    }
}

// the type the rule prescribes at u according to C04 (None: the rule evaluation refuses)
spec fn rule_type_at(r: TransitionRule, u: int) -> Option<LocalTimeType> {
    match r {
        TransitionRule::Fixed(t) => Some(t),
        TransitionRule::Alternate(a) => if alt_u_ok(u) { Some(if in_dst(a, u) { a.dst } else { a.std }) } else { None },
    }
}

// ---- C11: order stability of two yearly instants --------------------------------------------------

// instant of rule day d in year y at UTC day time t
spec fn rd_instant(d: RuleDay, t: int, y: int) -> int {
    rule_daynum(d, y) * 86400 + t
}

// the three relations of C11 for two yearly instants I1, I2 (I1 = start, I2 = end)
spec fn pair_stable(d1: RuleDay, t1: int, d2: RuleDay, t2: int) -> bool {
    &&& ((forall|y: int| rd_instant(d1, t1, y) <= #[trigger] rd_instant(d2, t2, y)) || (forall|y: int| rd_instant(d2, t2, y) <= #[trigger] rd_instant(d1, t1, y)))
    &&& ((forall|y: int| #[trigger] rd_instant(d2, t2, y) <= rd_instant(d1, t1, y + 1)) || (forall|y: int| rd_instant(d1, t1, y + 1) <= #[trigger] rd_instant(d2, t2, y)))
    &&& ((forall|y: int| #[trigger] rd_instant(d1, t1, y) <= rd_instant(d2, t2, y + 1)) || (forall|y: int| rd_instant(d2, t2, y + 1) <= #[trigger] rd_instant(d1, t1, y)))
}

// UTC day times that the constructor can produce: |time| < 7 d, offset in (-25 h, 26 h)
spec fn day_time_ok(t: int) -> bool {
    -698400 < t < 694800
}

// a Julian-day check record describes day d at UTC day time t: offsets of the instant from the start of a
// common / leap year, and from the end of it (= start of the following year)
spec fn jinfo_shape(i: JulianDayCheckInfos) -> bool {
    &&& i.end_normal_year_offset == i.start_normal_year_offset - 365 * 86400
    &&& i.end_leap_year_offset == i.start_leap_year_offset - 366 * 86400
    &&& (i.start_leap_year_offset == i.start_normal_year_offset || i.start_leap_year_offset == i.start_normal_year_offset + 86400)
    &&& -800000 < i.start_normal_year_offset < 366 * 86400 + 800000
}

spec fn jinfo_of(i: JulianDayCheckInfos, d: RuleDay, t: int) -> bool {
    &&& jinfo_shape(i)
    &&& forall|y: int| #[trigger] rd_instant(d, t, y) == dby(y) * 86400 + (if leap(y) { i.start_leap_year_offset as int } else { i.start_normal_year_offset as int })
}

// order stability of two Julian-notation days, in terms of the (common, leap) year classes; consecutive years
// are (common, common), (common, leap) or (leap, common)
spec fn jj_le_same(a: JulianDayCheckInfos, b: JulianDayCheckInfos) -> bool {
    a.start_normal_year_offset <= b.start_normal_year_offset && a.start_leap_year_offset <= b.start_leap_year_offset
}

// a(y) <= b(y + 1) for all y
spec fn jj_le_next(a: JulianDayCheckInfos, b: JulianDayCheckInfos) -> bool {
    a.end_normal_year_offset <= b.start_normal_year_offset && a.end_normal_year_offset <= b.start_leap_year_offset && a.end_leap_year_offset <= b.start_normal_year_offset
}

// b(y + 1) <= a(y) for all y
spec fn jj_ge_next(a: JulianDayCheckInfos, b: JulianDayCheckInfos) -> bool {
    b.start_normal_year_offset <= a.end_normal_year_offset && b.start_leap_year_offset <= a.end_normal_year_offset && b.start_normal_year_offset <= a.end_leap_year_offset
}

spec fn jj_stable(i1: JulianDayCheckInfos, i2: JulianDayCheckInfos) -> bool {
    &&& (jj_le_same(i1, i2) || jj_le_same(i2, i1))
    &&& (jj_le_next(i2, i1) || jj_ge_next(i2, i1))
    &&& (jj_le_next(i1, i2) || jj_ge_next(i1, i2))
}

// window of days of month m in which the w-th (w = 5: last) occurrence of any weekday falls
spec fn mwd_window(m: int, w: int, lp: bool) -> (int, int) {
    if w == 5 { (dim(m, lp) - 6, dim(m, lp)) } else { (7 * w - 6, 7 * w) }
}

// a Mm.w.d check record: the possible offsets (min, max over the weekday of January 1) of the instant from the
// start / end of a common / leap year
spec fn mwinfo_of(i: MonthWeekDayCheckInfos, m: MonthWeekDay, t: int) -> bool {
    let wn = mwd_window(m.month as int, m.week as int, false);
    let wl = mwd_window(m.month as int, m.week as int, true);
    &&& i.start_normal_year_offset_range.0 == (cum(m.month as int, false) + wn.0 - 1) * 86400 + t
    &&& i.start_normal_year_offset_range.1 == (cum(m.month as int, false) + wn.1 - 1) * 86400 + t
    &&& i.start_leap_year_offset_range.0 == (cum(m.month as int, true) + wl.0 - 1) * 86400 + t
    &&& i.start_leap_year_offset_range.1 == (cum(m.month as int, true) + wl.1 - 1) * 86400 + t
    &&& i.end_normal_year_offset_range.0 == i.start_normal_year_offset_range.0 - 365 * 86400
    &&& i.end_normal_year_offset_range.1 == i.start_normal_year_offset_range.1 - 365 * 86400
    &&& i.end_leap_year_offset_range.0 == i.start_leap_year_offset_range.0 - 366 * 86400
    &&& i.end_leap_year_offset_range.1 == i.start_leap_year_offset_range.1 - 366 * 86400
}

// decision procedure for a Mm.w.d day (record a) against a Julian-notation day (record b), as audited:
// the Julian day must lie outside the Mm.w.d range in both year classes, and the order across the year boundary
// must be the same for the three (common/leap) patterns of consecutive years
spec fn mj_decision(a: MonthWeekDayCheckInfos, b: JulianDayCheckInfos) -> bool {
    if b.start_normal_year_offset <= a.start_normal_year_offset_range.0 && b.start_leap_year_offset <= a.start_leap_year_offset_range.0 {
        ||| (a.end_normal_year_offset_range.1 <= b.start_normal_year_offset && a.end_normal_year_offset_range.1 <= b.start_leap_year_offset && a.end_leap_year_offset_range.1 <= b.start_normal_year_offset)
        ||| (b.start_normal_year_offset <= a.end_normal_year_offset_range.0 && b.start_leap_year_offset <= a.end_normal_year_offset_range.0 && b.start_normal_year_offset <= a.end_leap_year_offset_range.0)
    } else if a.start_normal_year_offset_range.1 <= b.start_normal_year_offset && a.start_leap_year_offset_range.1 <= b.start_leap_year_offset {
        ||| (b.end_normal_year_offset <= a.start_normal_year_offset_range.0 && b.end_normal_year_offset <= a.start_leap_year_offset_range.0 && b.end_leap_year_offset <= a.start_normal_year_offset_range.0)
        ||| (a.start_normal_year_offset_range.1 <= b.end_normal_year_offset && a.start_leap_year_offset_range.1 <= b.end_normal_year_offset && a.start_normal_year_offset_range.1 <= b.end_leap_year_offset)
    } else {
        false
    }
}

// decision procedure for two Mm.w.d days, as audited: possible range (in days) of "after - before" for the rule
// days sorted by month/week; None: the days are a whole number of weeks apart in every year or more than 3 weeks apart
spec fn mm_range(monb: int, wb: int, db: int, mona: int, wa: int, da: int) -> Option<(int, int)> {
    let dm = dim(monb, false) % 7;
    if db == da {
        if monb == mona && wb <= 4 && wa == 5 {
            Some((7 * (4 - wb), 7 * (5 - wb)))
        } else if monb != mona && wb <= 4 && wa <= 4 {
            Some((7 * (4 - wb + wa), 7 * (5 - wb + wa)))
        } else {
            None
        }
    } else {
        let n = (da - db) % 7;
        if monb == mona {
            if wb == 5 && wa == 5 {
                Some((n - 7, n))
            } else if wb <= 4 && wa <= 4 {
                Some((n + 7 * (wa - wb - 1), n + 7 * (wa - wb)))
            } else if n < dm {
                Some((n + 7 * (4 - wb), n + 7 * (5 - wb)))
            } else if n == dm {
                None
            } else {
                Some((n + 7 * (3 - wb), n + 7 * (4 - wb)))
            }
        } else if wb <= 4 && wa <= 4 {
            if n < dm {
                Some((n + 7 * (4 - wb + wa), n + 7 * (5 - wb + wa)))
            } else if n == dm {
                None
            } else {
                Some((n + 7 * (3 - wb + wa), n + 7 * (4 - wb + wa)))
            }
        } else if wb == 5 && wa <= 4 {
            Some((n + 7 * (wa - 1), n + 7 * wa))
        } else {
            None
        }
    }
}

spec fn mm_sorted_decision(mb: MonthWeekDay, tb: int, ma: MonthWeekDay, ta: int) -> bool {
    match mm_range(mb.month as int, mb.week as int, mb.week_day as int, ma.month as int, ma.week as int, ma.week_day as int) {
        None => true,
        Some(r) => tb <= r.0 * 86400 + ta || r.1 * 86400 + ta <= tb,
    }
}

spec fn mm_decision(m1: MonthWeekDay, t1: int, m2: MonthWeekDay, t2: int) -> bool {
    let rem = (m2.month as int - m1.month as int) % 12;
    if rem == 0 {
        if m1.week <= m2.week { mm_sorted_decision(m1, t1, m2, t2) } else { mm_sorted_decision(m2, t2, m1, t1) }
    } else if rem == 1 {
        mm_sorted_decision(m1, t1, m2, t2)
    } else if rem == 11 {
        mm_sorted_decision(m2, t2, m1, t1)
    } else {
        true
    }
}

// class conditions for a Mm.w.d day (record a) and a Julian-notation day (record b)
spec fn mj_m_le_j_same(a: MonthWeekDayCheckInfos, b: JulianDayCheckInfos) -> bool {
    a.start_normal_year_offset_range.1 <= b.start_normal_year_offset && a.start_leap_year_offset_range.1 <= b.start_leap_year_offset
}

spec fn mj_j_le_m_same(a: MonthWeekDayCheckInfos, b: JulianDayCheckInfos) -> bool {
    b.start_normal_year_offset <= a.start_normal_year_offset_range.0 && b.start_leap_year_offset <= a.start_leap_year_offset_range.0
}

// M(y) <= J(y + 1) for all y
spec fn mj_m_le_jnext(a: MonthWeekDayCheckInfos, b: JulianDayCheckInfos) -> bool {
    a.end_normal_year_offset_range.1 <= b.start_normal_year_offset && a.end_normal_year_offset_range.1 <= b.start_leap_year_offset && a.end_leap_year_offset_range.1 <= b.start_normal_year_offset
}

// J(y + 1) <= M(y) for all y
spec fn mj_jnext_le_m(a: MonthWeekDayCheckInfos, b: JulianDayCheckInfos) -> bool {
    b.start_normal_year_offset <= a.end_normal_year_offset_range.0 && b.start_leap_year_offset <= a.end_normal_year_offset_range.0 && b.start_normal_year_offset <= a.end_leap_year_offset_range.0
}

// J(y) <= M(y + 1) for all y
spec fn mj_j_le_mnext(a: MonthWeekDayCheckInfos, b: JulianDayCheckInfos) -> bool {
    b.end_normal_year_offset <= a.start_normal_year_offset_range.0 && b.end_normal_year_offset <= a.start_leap_year_offset_range.0 && b.end_leap_year_offset <= a.start_normal_year_offset_range.0
}

// M(y + 1) <= J(y) for all y
spec fn mj_mnext_le_j(a: MonthWeekDayCheckInfos, b: JulianDayCheckInfos) -> bool {
    a.start_normal_year_offset_range.1 <= b.end_normal_year_offset && a.start_leap_year_offset_range.1 <= b.end_normal_year_offset && a.start_normal_year_offset_range.1 <= b.end_leap_year_offset
}

// ---- C11, two Mm.w.d days: finite model ------------------------------------------------------------

// day of the month of the w-th (w = 5: last) weekday wd in a month of length len whose first day has weekday f
spec fn mday(f: int, len: int, w: int, wd: int) -> int {
    let d0 = 1 + (wd - f) % 7 + 7 * (w - 1);
    if d0 > len { d0 - 7 } else { d0 }
}

// days from the "before" rule day (month mb) to the "after" rule day (same month, or the following month if adj),
// when the first day of month mb has weekday f and the months have lenb / lena days
spec fn mm_delta(adj: bool, f: int, lenb: int, lena: int, wb: int, db: int, wa: int, da: int) -> int {
    if adj {
        lenb - mday(f, lenb, wb, db) + mday((f + lenb) % 7, lena, wa, da)
    } else {
        mday(f, lenb, wa, da) - mday(f, lenb, wb, db)
    }
}

spec fn next_month(m: int) -> int {
    if m == 12 { 1 } else { m + 1 }
}

// delta for month mb in a common (lp = false) or leap (lp = true) year; for December -> January the January is that of
// the following year (31 days whatever the year)
spec fn mm_delta_m(mb: int, adj: bool, f: int, lp: bool, wb: int, db: int, wa: int, da: int) -> int {
    mm_delta(adj, f, dim(mb, lp), dim(next_month(mb), lp), wb, db, wa, da)
}

// (minimum, maximum) of delta over the first n of the 14 combinations (f, lp), index i = 2 f + (lp ? 1 : 0); one pass
spec fn mm_minmax(mb: int, adj: bool, wb: int, db: int, wa: int, da: int, n: int) -> (int, int)
    decreases n,
{
    let v = mm_delta_m(mb, adj, (n - 1) / 2, (n - 1) % 2 == 1, wb, db, wa, da);
    if n <= 1 {
        (v, v)
    } else {
        let r = mm_minmax(mb, adj, wb, db, wa, da, n - 1);
        (if v < r.0 { v } else { r.0 }, if v > r.1 { v } else { r.1 })
    }
}

spec fn mm_min(mb: int, adj: bool, wb: int, db: int, wa: int, da: int, n: int) -> int {
    mm_minmax(mb, adj, wb, db, wa, da, n).0
}

spec fn mm_max(mb: int, adj: bool, wb: int, db: int, wa: int, da: int, n: int) -> int {
    mm_minmax(mb, adj, wb, db, wa, da, n).1
}

// the audited procedure is right for one combination: a reported range is exactly [min, max] of delta; "always
// consistent" is reported only if delta is constant or at least 22 days (more than the largest possible
// difference of the two day times, 16 d 3 h) in absolute value
spec fn mm_case_ok(mb: int, adj: bool, wb: int, db: int, wa: int, da: int) -> bool {
    let mm = mm_minmax(mb, adj, wb, db, wa, da, 14);
    let lo = mm.0;
    let hi = mm.1;
    match mm_range(mb, wb, db, if adj { next_month(mb) } else { mb }, wa, da) {
        Some(r) => r.0 == lo && r.1 == hi,
        None => lo == hi || lo >= 22 || hi <= -22,
    }
}

// all combinations for one month and adjacency (same month: sorted by week, wb <= wa), as nested bounded loops
spec fn mm_all_da(mb: int, adj: bool, wb: int, db: int, wa: int, n: int) -> bool
    decreases n,
{
    if n <= 0 { true } else { mm_case_ok(mb, adj, wb, db, wa, n - 1) && mm_all_da(mb, adj, wb, db, wa, n - 1) }
}

spec fn mm_all_db(mb: int, adj: bool, wb: int, wa: int, n: int) -> bool
    decreases n,
{
    if n <= 0 { true } else { mm_all_da(mb, adj, wb, n - 1, wa, 7) && mm_all_db(mb, adj, wb, wa, n - 1) }
}

spec fn mm_all_wa(mb: int, adj: bool, wb: int, n: int) -> bool
    decreases n,
{
    if n <= 0 { true } else { (adj || wb <= n ==> mm_all_db(mb, adj, wb, n, 7)) && mm_all_wa(mb, adj, wb, n - 1) }
}

spec fn mm_all_wb(mb: int, adj: bool, n: int) -> bool
    decreases n,
{
    if n <= 0 { true } else { mm_all_wa(mb, adj, n, 5) && mm_all_wb(mb, adj, n - 1) }
}
