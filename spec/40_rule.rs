// S-RULE: POSIX daylight-saving rules (C04, C11).  Written from POSIX / RFC 8536 and the property text.

spec fn rd_wf(d: RuleDay) -> bool {
    match d {
        RuleDay::Julian1WithoutLeap(j) => 1 <= j.0 <= 365,
        RuleDay::Julian0WithLeap(j) => j.0 <= 365,
        RuleDay::MonthWeekDay(m) => mwd_wf(m),
    }
}

spec fn mwd_wf(m: MonthWeekDay) -> bool {
    1 <= m.month <= 12 && 1 <= m.week <= 5 && m.week_day <= 6
}

// Mm.w.d: day d of month m in year y is the w-th occurrence of weekday wd (w = 5: the last one)
spec fn is_mwd_day(y: int, m: int, w: int, wd: int, d: int) -> bool {
    &&& 1 <= d <= dim(m, leap(y))
    &&& weekday(days_civil(y, m, d)) == wd
    &&& if w == 5 { d > dim(m, leap(y)) - 7 } else { 7 * (w - 1) < d <= 7 * w }
}

spec fn mwd_day(y: int, m: int, w: int, wd: int) -> int {
    choose|d: int| is_mwd_day(y, m, w, wd, d)
}

// day number (days since 1970-01-01) of the rule day in year y
//   Jn : the n-th day of the year, 1 <= n <= 365, leap days not counted (Feb 29 cannot be named)
//   n  : zero-based day of the year, 0 <= n <= 365, leap days counted (365 in a common year = Jan 1 of y+1)
//   Mm.w.d : see is_mwd_day
spec fn rule_daynum(d: RuleDay, y: int) -> int {
    match d {
        RuleDay::Julian1WithoutLeap(j) => dby(y) + j.0 - 1 + (if leap(y) && j.0 >= 60 { 1int } else { 0 }),
        RuleDay::Julian0WithLeap(j) => dby(y) + j.0,
        RuleDay::MonthWeekDay(m) => days_civil(y, m.month as int, mwd_day(y, m.month as int, m.week as int, m.week_day as int)),
    }
}

// DST start instant of year y: start day at start time read on the standard-time clock
spec fn alt_s(a: AlternateTime, y: int) -> int {
    rule_daynum(a.dst_start, y) * 86400 + a.dst_start_time - a.std.ut_offset
}

// DST end instant of year y: end day at end time read on the daylight-time clock
spec fn alt_e(a: AlternateTime, y: int) -> int {
    rule_daynum(a.dst_end, y) * 86400 + a.dst_end_time - a.dst.ut_offset
}

spec fn start_first(a: AlternateTime) -> bool {
    forall|y: int| alt_s(a, y) <= #[trigger] alt_e(a, y)
}

spec fn end_first(a: AlternateTime) -> bool {
    forall|y: int| alt_e(a, y) <= #[trigger] alt_s(a, y)
}

// C11: the relative order of start and end is the same in every year, for the three relations
spec fn order_stable(a: AlternateTime) -> bool {
    &&& (start_first(a) || end_first(a))
    &&& ((forall|y: int| #[trigger] alt_e(a, y) <= alt_s(a, y + 1)) || (forall|y: int| alt_s(a, y + 1) <= #[trigger] alt_e(a, y)))
    &&& ((forall|y: int| #[trigger] alt_s(a, y) <= alt_e(a, y + 1)) || (forall|y: int| alt_e(a, y + 1) <= #[trigger] alt_s(a, y)))
}

spec fn alt_ranges_ok(a: AlternateTime) -> bool {
    &&& -90000 < a.std.ut_offset < 93600
    &&& -90000 < a.dst.ut_offset < 93600
    &&& -604800 < a.dst_start_time < 604800
    &&& -604800 < a.dst_end_time < 604800
}

// type invariant established by AlternateTime::new
spec fn alt_wf(a: AlternateTime) -> bool {
    &&& ltt_wf(a.std)
    &&& ltt_wf(a.dst)
    &&& rd_wf(a.dst_start)
    &&& rd_wf(a.dst_end)
    &&& alt_ranges_ok(a)
    &&& order_stable(a)
}

spec fn rule_wf(r: TransitionRule) -> bool {
    match r {
        TransitionRule::Fixed(t) => ltt_wf(t),
        TransitionRule::Alternate(a) => alt_wf(a),
    }
}

// C04: on daylight time exactly inside a period that starts at a year's DST-start instant and ends at the
// following DST-end instant, start inclusive, end exclusive.  If the start never comes after the end of the same
// year the periods are [S(y), E(y)); otherwise (end first, e.g. southern hemisphere) they are [S(y), E(y+1)).
// (When S(y) = E(y) in every year both readings of the property's quantifier apply; the first one - empty
// periods, never DST - is taken, which is also what the code does.)
spec fn in_dst(a: AlternateTime, u: int) -> bool {
    if start_first(a) {
        exists|y: int| alt_s(a, y) <= u < #[trigger] alt_e(a, y)
    } else {
        exists|y: int| #[trigger] alt_s(a, y) <= u < alt_e(a, y + 1)
    }
}

// the two interleaving patterns named by C04's quantifier
spec fn interleaving(a: AlternateTime) -> bool {
    ||| (forall|y: int| alt_s(a, y) <= #[trigger] alt_e(a, y) && alt_e(a, y) <= alt_s(a, y + 1))
    ||| (forall|y: int| alt_e(a, y) <= #[trigger] alt_s(a, y) && alt_s(a, y) <= alt_e(a, y + 1))
}

// instants whose year is within [i32::MIN + 2, i32::MAX - 2]
spec fn alt_u_ok(u: int) -> bool {
    dby(-2147483646) * 86400 <= u < dby(2147483646) * 86400
}

// the calendar year containing u
spec fn year_is(u: int, c: int) -> bool {
    dby(c) * 86400 <= u < dby(c + 1) * 86400
}

// KNOWN FINDING F2 (see known_findings.json): end-first rules in a year where start and end coincide.
// The contract of the rule evaluator is silent on exactly this class.
spec fn alt_defect_class(a: AlternateTime, u: int) -> bool {
    !start_first(a) && exists|c: int| #[trigger] year_is(u, c) && alt_s(a, c) == alt_e(a, c)
}

// what C04 lets the rule evaluation answer
spec fn alt_answer(a: AlternateTime, u: int, lt: LocalTimeType) -> bool {
    &&& alt_u_ok(u)
    &&& (lt == a.dst || lt == a.std)
    &&& (!alt_defect_class(a, u) ==> lt == (if in_dst(a, u) { a.dst } else { a.std }))
}

spec fn rule_answer(r: TransitionRule, u: int, lt: LocalTimeType) -> bool {
    match r {
        TransitionRule::Fixed(t) => lt == t,
        TransitionRule::Alternate(a) => alt_answer(a, u, lt),
    }
}

spec fn rule_refuses(r: TransitionRule, u: int) -> bool {
    match r {
        TransitionRule::Fixed(t) => false,
        TransitionRule::Alternate(a) => !alt_u_ok(u),
    }
}

spec fn rule_defect_class(r: TransitionRule, u: int) -> bool {
    match r {
        TransitionRule::Fixed(t) => false,
        TransitionRule::Alternate(a) => alt_defect_class(a, u),
    }
}

// the type the rule prescribes at u according to C04 (None: the rule evaluation refuses)
spec fn rule_type_at(r: TransitionRule, u: int) -> Option<LocalTimeType> {
    match r {
        TransitionRule::Fixed(t) => Some(t),
        TransitionRule::Alternate(a) => if alt_u_ok(u) { Some(if in_dst(a, u) { a.dst } else { a.std }) } else { None },
    }
}
