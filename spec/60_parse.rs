// S-PARSE: the TZif header (RFC 8536 section 3.1) and the cursor helpers (C07; the header facts are a by-product for C08)

// 64-bit target (as in the assumption list): the block-size arithmetic of read_data_blocks is done in usize
global size_of usize == 8;

// big-endian 32-bit value of four bytes
spec fn be32(b: Seq<u8>) -> int {
    ((b[0] as int * 256 + b[1] as int) * 256 + b[2] as int) * 256 + b[3] as int
}

// vstd's trait-level specification of From::from for the conversion `?` applies to a ParseDataError in the TZif parser
impl vstd::std_specs::convert::FromSpecImpl<ParseDataError> for TzFileError {
    open spec fn obeys_from_spec() -> bool { true }
    open spec fn from_spec(e: ParseDataError) -> Self { TzFileError::ParseData(e) }
}

// <[T]>::split_first_chunk::<N> (assumed; it is `split_at_checked(N)` with the head viewed as an array)
pub assume_specification<T, const N: usize> [ <[T]>::split_first_chunk::<N> ] (s: &[T]) -> (r: Option<(&[T; N], &[T])>)
    ensures
        match r {
            Some((a, t)) => s@.len() >= N && a@ == s@.subrange(0, N as int) && t@ == s@.subrange(N as int, s@.len() as int),
            None => s@.len() < N,
        };

// contracts of two expressions of parse_header that rule R10 replaces by calls (assumed here; each proved for the original
// expression by a complete Kani harness, kani/find_abstractions.rs)
#[verifier::external_body]
fn be_u32(b: &[u8; 4]) -> (r: u32)
    ensures
        r as int == be32(b@),
{
    unimplemented!()
}

#[verifier::external_body]
fn is_tzif_magic(m: &[u8]) -> (r: bool)
    ensures
        r == (m@.len() == 4 && m@[0] == 0x54 && m@[1] == 0x5a && m@[2] == 0x69 && m@[3] == 0x66),
{
    unimplemented!()
}

// type invariant of the parsed header: every count came from a 32-bit field
spec fn header_wf(h: Header) -> bool {
    &&& h.ut_local_count <= u32::MAX
    &&& h.std_wall_count <= u32::MAX
    &&& h.leap_count <= u32::MAX
    &&& h.transition_count <= u32::MAX
    &&& h.type_count <= u32::MAX
    &&& h.char_count <= u32::MAX
}

// RFC 8536 section 3.1, as far as the header alone can be judged: magic, version byte, and the consistency of the six counts
spec fn header_ok(b: Seq<u8>) -> bool {
    &&& b.len() >= 44
    &&& b[0] == 0x54 && b[1] == 0x5a && b[2] == 0x69 && b[3] == 0x66
    &&& (b[4] == 0x00 || b[4] == 0x32 || b[4] == 0x33)
    &&& be32(b.subrange(36, 40)) != 0
    &&& be32(b.subrange(40, 44)) != 0
    &&& (be32(b.subrange(20, 24)) == 0 || be32(b.subrange(20, 24)) == be32(b.subrange(36, 40)))
    &&& (be32(b.subrange(24, 28)) == 0 || be32(b.subrange(24, 28)) == be32(b.subrange(36, 40)))
}

// total size of the data block described by a header for a given time size
spec fn data_block_len(h: Header, ts: int) -> int {
    h.transition_count * ts + h.transition_count + h.type_count * 6 + h.char_count + h.leap_count * (ts + 4) + h.std_wall_count + h.ut_local_count
}

// the zone (or error) that the decoder proper, DataBlocks::parse, produces from the seven blocks, the header and the footer.
// Uninterpreted: the decoder's body is outside Verus's subset; only "it is a function of these arguments" is used.
uninterp spec fn decoded_zone(transition_times: Seq<u8>, transition_types: Seq<u8>, local_time_types: Seq<u8>, time_zone_designations: Seq<u8>, leap_seconds: Seq<u8>, std_walls: Seq<u8>, ut_locals: Seq<u8>, header: Header, footer: Option<&[u8]>) -> Result<TimeZone, TzError>;

impl vstd::std_specs::convert::FromSpecImpl<TzFileError> for TzError {
    open spec fn obeys_from_spec() -> bool { true }
    open spec fn from_spec(e: TzFileError) -> Self { TzError::TzFile(e) }
}

// the header that a well-formed 44-byte prefix denotes
spec fn hdr_of(b: Seq<u8>) -> Header {
    Header {
        version: if b[4] == 0x00 { Version::V1 } else if b[4] == 0x32 { Version::V2 } else { Version::V3 },
        ut_local_count: be32(b.subrange(20, 24)) as usize,
        std_wall_count: be32(b.subrange(24, 28)) as usize,
        leap_count: be32(b.subrange(28, 32)) as usize,
        transition_count: be32(b.subrange(32, 36)) as usize,
        type_count: be32(b.subrange(36, 40)) as usize,
        char_count: be32(b.subrange(40, 44)) as usize,
    }
}

// the decoder applied to a data block `d` cut as RFC 8536 prescribes for header h and time size ts
spec fn decode_block(d: Seq<u8>, h: Header, ts: int, footer: Option<&[u8]>) -> Result<TimeZone, TzError> {
    let n0 = h.transition_count * ts;
    let n1 = n0 + h.transition_count;
    let n2 = n1 + h.type_count * 6;
    let n3 = n2 + h.char_count;
    let n4 = n3 + h.leap_count * (ts + 4);
    let n5 = n4 + h.std_wall_count;
    let n6 = n5 + h.ut_local_count;
    decoded_zone(d.subrange(0, n0), d.subrange(n0, n1), d.subrange(n1, n2), d.subrange(n2, n3), d.subrange(n3, n4), d.subrange(n4, n5), d.subrange(n5, n6), h, footer)
}

// C08, file level: a version-1 file is a header plus exactly its 32-bit data block
spec fn tzif_v1_shape(b: Seq<u8>) -> bool {
    header_ok(b) && b[4] == 0x00 && 44 + data_block_len(hdr_of(b), 4) == b.len()
}

// a version-2/3 file: header, 32-bit block (skipped), second header, 64-bit block, footer
spec fn tzif_v2_rest(b: Seq<u8>) -> Seq<u8> {
    b.subrange(44 + data_block_len(hdr_of(b), 4), b.len() as int)
}

spec fn tzif_v2_shape(b: Seq<u8>) -> bool {
    &&& header_ok(b)
    &&& b[4] != 0x00
    &&& 44 + data_block_len(hdr_of(b), 4) <= b.len()
    &&& header_ok(tzif_v2_rest(b))
    &&& 44 + data_block_len(hdr_of(tzif_v2_rest(b)), 8) <= tzif_v2_rest(b).len()
}
