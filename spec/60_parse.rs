// S-PARSE: the TZif header (RFC 8536 section 3.1) and the cursor helpers (C07; the header facts are a by-product for C08)

// 64-bit target (as in the assumption list): the block-size arithmetic of read_data_blocks is done in usize
global size_of usize == 8;

// big-endian 32-bit value of four bytes
spec fn be32(b: Seq<u8>) -> int {
    ((b[0] as int * 256 + b[1] as int) * 256 + b[2] as int) * 256 + b[3] as int
}

// vstd's trait-level specification of From::from for the conversion `?` applies to a ParseDataError in the TZif parser
impl vstd::std_specs::convert::FromSpecImpl<ParseDataError> for TzFileError {
    open spec fn obeys_from_spec() -> bool { true }
    open spec fn from_spec(e: ParseDataError) -> Self { TzFileError::ParseData(e) }
}

// <[T]>::split_first_chunk::<N> (assumed; it is `split_at_checked(N)` with the head viewed as an array)
pub assume_specification<T, const N: usize> [ <[T]>::split_first_chunk::<N> ] (s: &[T]) -> (r: Option<(&[T; N], &[T])>)
    ensures
        match r {
            Some((a, t)) => s@.len() >= N && a@ == s@.subrange(0, N as int) && t@ == s@.subrange(N as int, s@.len() as int),
            None => s@.len() < N,
        };

// contracts of two expressions of parse_header that rule R10 replaces by calls (assumed here; each proved for the original
// expression by a complete Kani harness, kani/find_abstractions.rs)
#[verifier::external_body]
fn be_u32(b: &[u8; 4]) -> (r: u32)
    ensures
        r as int == be32(b@),
{
    unimplemented!()
}

#[verifier::external_body]
fn is_tzif_magic(m: &[u8]) -> (r: bool)
    ensures
        r == (m@.len() == 4 && m@[0] == 0x54 && m@[1] == 0x5a && m@[2] == 0x69 && m@[3] == 0x66),
{
    unimplemented!()
}

// type invariant of the parsed header: every count came from a 32-bit field
spec fn header_wf(h: Header) -> bool {
    &&& h.ut_local_count <= u32::MAX
    &&& h.std_wall_count <= u32::MAX
    &&& h.leap_count <= u32::MAX
    &&& h.transition_count <= u32::MAX
    &&& h.type_count <= u32::MAX
    &&& h.char_count <= u32::MAX
}

// RFC 8536 section 3.1, as far as the header alone can be judged: magic, version byte, and the consistency of the six counts
spec fn header_ok(b: Seq<u8>) -> bool {
    &&& b.len() >= 44
    &&& b[0] == 0x54 && b[1] == 0x5a && b[2] == 0x69 && b[3] == 0x66
    &&& (b[4] == 0x00 || b[4] == 0x32 || b[4] == 0x33)
    &&& be32(b.subrange(36, 40)) != 0
    &&& be32(b.subrange(40, 44)) != 0
    &&& (be32(b.subrange(20, 24)) == 0 || be32(b.subrange(20, 24)) == be32(b.subrange(36, 40)))
    &&& (be32(b.subrange(24, 28)) == 0 || be32(b.subrange(24, 28)) == be32(b.subrange(36, 40)))
}

// total size of the data block described by a header for a given time size
spec fn data_block_len(h: Header, ts: int) -> int {
    h.transition_count * ts + h.transition_count + h.type_count * 6 + h.char_count + h.leap_count * (ts + 4) + h.std_wall_count + h.ut_local_count
}
