// S-CAL: proleptic Gregorian calendar over mathematical integers (trusted definitions).
// Axioms: the 4/100/400 leap rule, the month-length table, 1970-01-01 is day 0 and a Thursday.
// The closed forms `dby` and `cum` are pinned to those axioms by lemma_dby_step / lemma_cum.

spec fn leap(y: int) -> bool {
    y % 400 == 0 || (y % 4 == 0 && y % 100 != 0)
}

spec fn ylen(y: int) -> int {
    if leap(y) { 366 } else { 365 }
}

spec fn dim(m: int, lp: bool) -> int {
    if m == 2 {
        if lp { 29 } else { 28 }
    } else if m == 4 || m == 6 || m == 9 || m == 11 {
        30
    } else {
        31
    }
}

// days of the year before the first day of month m (1-based; m == 13 gives the year length).
// Written as a table for the solver; lemma_cum pins it to `dim` (cum(1) = 0, cum(m+1) = cum(m) + dim(m)).
spec fn cum(m: int, lp: bool) -> int {
    let base: int = if m <= 1 { 0 } else if m == 2 { 31 } else if m == 3 { 59 } else if m == 4 { 90 } else if m == 5 { 120 }
        else if m == 6 { 151 } else if m == 7 { 181 } else if m == 8 { 212 } else if m == 9 { 243 } else if m == 10 { 273 }
        else if m == 11 { 304 } else if m == 12 { 334 } else { 365 };
    if m >= 3 && lp { base + 1 } else { base }
}

// days from 1970-01-01 to y-01-01
spec fn dby(y: int) -> int {
    365 * (y - 1970) + (y - 1) / 4 - (y - 1) / 100 + (y - 1) / 400 - 477
}

spec fn valid_date(y: int, m: int, d: int) -> bool {
    1 <= m <= 12 && 1 <= d <= dim(m, leap(y))
}

spec fn days_civil(y: int, m: int, d: int) -> int {
    dby(y) + cum(m, leap(y)) + d - 1
}

spec fn secs(y: int, m: int, d: int, h: int, mi: int, s: int) -> int {
    ((days_civil(y, m, d) * 24 + h) * 60 + mi) * 60 + s
}

// 0 = Sunday
spec fn weekday(n: int) -> int {
    (4 + n) % 7
}

// supported range of UtcDateTime: every instant whose year fits an i32
spec fn utc_min() -> int {
    dby(-2147483648) * 86400
}

spec fn utc_max() -> int {
    dby(2147483648) * 86400 - 1
}

spec fn valid_time(h: int, mi: int, s: int) -> bool {
    0 <= h < 24 && 0 <= mi < 60 && 0 <= s < 60
}

// March-based month table used by the Unix-time -> calendar direction: days before the k-th month
// counting from March (k = 0 is March, k = 10 January, k = 11 February)
spec fn mpre(k: int) -> int {
    if k <= 0 { 0 } else if k == 1 { 31 } else if k == 2 { 61 } else if k == 3 { 92 } else if k == 4 { 122 } else if k == 5 { 153 }
    else if k == 6 { 184 } else if k == 7 { 214 } else if k == 8 { 245 } else if k == 9 { 275 } else if k == 10 { 306 } else if k == 11 { 337 } else { 366 }
}

// truncating (Rust) division on mathematical integers, d > 0
spec fn tdiv(x: int, d: int) -> int {
    if x >= 0 { x / d } else { -((-x) / d) }
}

spec fn imin(a: int, b: int) -> int {
    if a <= b { a } else { b }
}

// truncating (Rust) remainder on mathematical integers, d > 0
spec fn trem(x: int, d: int) -> int {
    x - d * tdiv(x, d)
}
