// S-FIND: result lists and the local-time search (C05, C06, C14, C17).

// every date-time held by a search result satisfies the C14 representation invariant
spec fn kind_inv(k: FoundDateTimeKind) -> bool {
    match k {
        FoundDateTimeKind::Normal(dt) => dt_inv(dt),
        FoundDateTimeKind::Skipped { before_transition, after_transition } => dt_inv(before_transition) && dt_inv(after_transition),
    }
}

spec fn all_kind_inv(r: Seq<FoundDateTimeKind>) -> bool {
    forall|i: int| 0 <= i < r.len() ==> kind_inv(#[trigger] r[i])
}

// C17: what a list of capacity `cap` keeps of a sequence of pushes
spec fn take_cap(s: Seq<FoundDateTimeKind>, cap: nat) -> Seq<FoundDateTimeKind> {
    if s.len() <= cap { s } else { s.subrange(0, cap as int) }
}

// the list `post` is the list `pre` after the pushes `r`, in order (abstract view: stored prefix, capacity, total count)
spec fn list_after<L: DateTimeList + ?Sized>(pre: &L, r: Seq<FoundDateTimeKind>, post: &L) -> bool {
    &&& post.inv()
    &&& post.cap() == pre.cap()
    &&& post.total() == pre.total() + r.len()
    &&& post.room() == pre.room() - r.len()
    &&& post.stored() == take_cap(pre.stored() + r, pre.cap())
    &&& forall|i: int| i >= post.stored().len() ==> post.slot(i) == pre.slot(i)
}

// the caller-provided buffer of the allocation-free list: slots below `n` hold results, in order
spec fn buf_prefix(b: Seq<Option<FoundDateTimeKind>>, n: int) -> Seq<FoundDateTimeKind> {
    Seq::new(n as nat, |i: int| b[i]->Some_0)
}

spec fn buf_all_some(b: Seq<Option<FoundDateTimeKind>>, n: int) -> bool {
    forall|i: int| 0 <= i < n ==> (#[trigger] b[i]) is Some
}

// the allocating list's contents (public and closed: it appears in the assumed contract of the derived Default::default)
pub closed spec fn found_list_view(l: FoundDateTimeList) -> Seq<FoundDateTimeKind> {
    l.0@
}

// #[derive(Default)] on FoundDateTimeList(Vec<..>): the empty list (assumed; cross-checked by Kani harness find_abstractions::default_list_is_empty)
pub assume_specification[ <FoundDateTimeList as Default>::default ]() -> (r: FoundDateTimeList)
    ensures
        found_list_view(r).len() == 0;

// the buffer behind the allocation-free list
spec fn refmut_bv(l: FoundDateTimeListRefMut) -> Seq<Option<FoundDateTimeKind>> {
    l.buf@
}

// contracts of the three iterator-adapter expressions of find_date_time that rule R10 replaces by calls
// (assumed here; each is proved for the original expression by a complete Kani harness, kani/find_abstractions.rs)
#[verifier::external_body]
fn windows2_all_le(a: &[i64; 7]) -> (r: bool)
    ensures
        r == (a@[0] <= a@[1] && a@[1] <= a@[2] && a@[2] <= a@[3] && a@[3] <= a@[4] && a@[4] <= a@[5] && a@[5] <= a@[6]),
{
    unimplemented!()
}

#[verifier::external_body]
fn swap_pairs(a: &mut [i64; 7])
    ensures
        final(a)@ == seq![old(a)@[1], old(a)@[0], old(a)@[3], old(a)@[2], old(a)@[5], old(a)@[4], old(a)@[6]],
{
    unimplemented!()
}

#[verifier::external_body]
fn position_gt(a: &[i64; 7], p: i64) -> (r: Option<usize>)
    ensures
        match r {
            Some(k) => k < 7 && p < a@[k as int] && (forall|i: int| 0 <= i < k ==> a@[i] <= p),
            None => forall|i: int| 0 <= i < 7 ==> a@[i] <= p,
        },
{
    unimplemented!()
}

// the one-entry cache of find_date_time's get_time closure: (type index, (candidate instant, its count))
spec fn find_cache_ok(c: Option<(usize, (i64, i64))>, utc: int, types: Seq<LocalTimeType>, leaps: Seq<LeapSecond>) -> bool {
    match c {
        Some((i, (u, t))) => i < types.len() && u == utc - types[i as int].ut_offset && is_f(leaps, u as int, t as int),
        None => true,
    }
}

// civil second counts of valid fields stay far inside i64 (|year| < 2^31)
spec fn civil_secs_bounded(s: int) -> bool {
    -70000000000000000 <= s <= 70000000000000000
}

// vstd's trait-level specification of From::from for the conversion that `?` applies to a DateTimeError
impl vstd::std_specs::convert::FromSpecImpl<DateTimeError> for TzError {
    open spec fn obeys_from_spec() -> bool { true }
    open spec fn from_spec(e: DateTimeError) -> Self { TzError::DateTime(e) }
}

// C17, the statement: what find_n leaves in a buffer `b0` of n slots when the search produced the k results `rs`
spec fn refmut_result(b0: Seq<Option<FoundDateTimeKind>>, rs: Seq<FoundDateTimeKind>, l: FoundDateTimeListRefMut) -> bool {
    let n = b0.len() as int;
    let k = rs.len() as int;
    let m = if n <= k { n } else { k };
    &&& refmut_bv(l).len() == n
    &&& l.count == k
    &&& l.current_index == m
    &&& forall|i: int| 0 <= i < m ==> refmut_bv(l)[i] == Some(rs[i])
    &&& forall|i: int| m <= i < n ==> refmut_bv(l)[i] == b0[i]
    &&& (l.current_index == l.count) == (n >= k)
}

// ---- C05 / C06: what the search must report ------------------------------------------------------------

// the searched local calendar date-time
struct FindQuery {
    year: i32,
    month: u8,
    month_day: u8,
    hour: u8,
    minute: u8,
    second: u8,
    nanoseconds: u32,
}

// its civil second count (second 60 counted as +60, as everywhere)
spec fn q_civil(q: FindQuery) -> int {
    secs(q.year as int, q.month as int, q.month_day as int, q.hour as int, q.minute as int, q.second as int)
}

// the date-time value carrying the searched fields for instant u under local time type lt
spec fn q_dt(q: FindQuery, lt: LocalTimeType, u: i64) -> DateTime {
    DateTime { year: q.year, month: q.month, month_day: q.month_day, hour: q.hour, minute: q.minute, second: q.second, local_time_type: lt, unix_time: u, nanoseconds: q.nanoseconds }
}

// C05: "the zone's clock shows that date-time at instant u": the forward lookup answers lt at u, and u + lt's offset is the searched civil time
spec fn clock_shows(z: TimeZoneRef, q: FindQuery, u: int, lt: LocalTimeType) -> bool {
    lookup_ok(z, u, lt) && u + lt.ut_offset == q_civil(q)
}

// C05 (soundness): a valid result carries the searched fields, and converting its instant back with the zone reproduces
// them and the returned local time type
spec fn normal_sound(z: TimeZoneRef, q: FindQuery, k: FoundDateTimeKind) -> bool {
    match k {
        FoundDateTimeKind::Normal(dt) => dt == q_dt(q, dt.local_time_type, dt.unix_time) && clock_shows(z, q, dt.unix_time as int, dt.local_time_type)
            && utc_min() <= dt.unix_time <= utc_max(),
        FoundDateTimeKind::Skipped { .. } => true,
    }
}

// the local time type in force before table transition i
spec fn type_before(z: TimeZoneRef, i: int) -> LocalTimeType {
    if i <= 0 { z.local_time_types@[0] } else { z.local_time_types@[z.transitions@[i - 1].local_time_type_index as int] }
}

// C06: entry k reports the gap of table transition i: the transition instant T = g(T_i) on the clock before and on the clock
// after the jump, and the searched time lies in [T + a, T + b) (a, b the offsets before / after).  The last transition of a
// zone without trailing rule ends the zone's coverage and opens no gap.
spec fn table_gap(z: TimeZoneRef, q: FindQuery, i: int, k: FoundDateTimeKind) -> bool {
    match k {
        FoundDateTimeKind::Skipped { before_transition, after_transition } => {
            let tr = z.transitions@;
            let t = g_spec(z.leap_seconds@, tr[i].unix_leap_time as int);
            &&& 0 <= i < tr.len()
            &&& (i < tr.len() - 1 || *z.extra_rule is Some)
            &&& before_transition.unix_time == t
            &&& after_transition.unix_time == t
            &&& before_transition.nanoseconds == q.nanoseconds
            &&& after_transition.nanoseconds == q.nanoseconds
            &&& before_transition.local_time_type == type_before(z, i)
            &&& after_transition.local_time_type == z.local_time_types@[tr[i].local_time_type_index as int]
            &&& dt_inv(before_transition)
            &&& dt_inv(after_transition)
            &&& t + before_transition.local_time_type.ut_offset <= q_civil(q) < t + after_transition.local_time_type.ut_offset
        },
        FoundDateTimeKind::Normal(_) => false,
    }
}

spec fn gap_sound(z: TimeZoneRef, q: FindQuery, k: FoundDateTimeKind) -> bool {
    k is Skipped ==> exists|i: int| #[trigger] table_gap(z, q, i, k)
}

// C05 (soundness) over a result sequence
spec fn normals_sound(z: TimeZoneRef, q: FindQuery, rs: Seq<FoundDateTimeKind>) -> bool {
    forall|j: int| 0 <= j < rs.len() ==> normal_sound(z, q, #[trigger] rs[j])
}

// C06 ("no gap is reported otherwise") over a result sequence
spec fn gaps_sound(z: TimeZoneRef, q: FindQuery, rs: Seq<FoundDateTimeKind>) -> bool {
    forall|j: int| 0 <= j < rs.len() ==> gap_sound(z, q, #[trigger] rs[j])
}

// C06: the searched time falls into the gap of table transition i (a real transition: not the coverage-ending last one)
spec fn gap_cond(z: TimeZoneRef, q: FindQuery, i: int) -> bool {
    let tr = z.transitions@;
    let t = g_spec(z.leap_seconds@, tr[i].unix_leap_time as int);
    &&& 0 <= i < tr.len()
    &&& (i < tr.len() - 1 || *z.extra_rule is Some)
    &&& t + type_before(z, i).ut_offset <= q_civil(q) < t + z.local_time_types@[tr[i].local_time_type_index as int].ut_offset
}

spec fn has_gap(z: TimeZoneRef, q: FindQuery, i: int, rs: Seq<FoundDateTimeKind>) -> bool {
    exists|j: int| 0 <= j < rs.len() && #[trigger] table_gap(z, q, i, rs[j])
}

// C06 (completeness): the gap of every table transition before n that contains the searched time is reported
spec fn gaps_found(z: TimeZoneRef, q: FindQuery, rs: Seq<FoundDateTimeKind>, n: int) -> bool {
    forall|i: int| 0 <= i < n && #[trigger] gap_cond(z, q, i) ==> has_gap(z, q, i, rs)
}

spec fn find_query(year: i32, month: u8, month_day: u8, hour: u8, minute: u8, second: u8, nanoseconds: u32) -> FindQuery {
    FindQuery { year, month, month_day, hour, minute, second, nanoseconds }
}

spec fn rule_is_alternate(z: TimeZoneRef) -> bool {
    match *z.extra_rule {
        Some(TransitionRule::Alternate(_)) => true,
        _ => false,
    }
}

// ---- C05 completeness, C06 ordering ----------------------------------------------------------------------

spec fn has_normal(rs: Seq<FoundDateTimeKind>, dt: DateTime) -> bool {
    exists|j: int| 0 <= j < rs.len() && #[trigger] rs[j] == FoundDateTimeKind::Normal(dt)
}

// C05 (completeness): every instant at which the zone's clock shows the searched date-time is reported as a valid result
spec fn all_found(z: TimeZoneRef, q: FindQuery, rs: Seq<FoundDateTimeKind>) -> bool {
    forall|u: int, lt: LocalTimeType| #[trigger] clock_shows(z, q, u, lt) ==> i64::MIN <= u <= i64::MAX && has_normal(rs, q_dt(q, lt, u as i64))
}

// the candidate instant of table slot i (the searched civil time read on the clock in force before transition i)
spec fn slot_cand(z: TimeZoneRef, q: FindQuery, i: int) -> int {
    q_civil(q) - type_before(z, i).ut_offset
}

// the candidate falls into its own slot: its count lies in [T_{i-1}, T_i)
spec fn slot_hit(z: TimeZoneRef, q: FindQuery, i: int) -> bool {
    exists|t: int| #[trigger] is_f(z.leap_seconds@, slot_cand(z, q, i), t) && (i > 0 ==> z.transitions@[i - 1].unix_leap_time <= t) && t < z.transitions@[i].unix_leap_time
}

spec fn slots_found(z: TimeZoneRef, q: FindQuery, rs: Seq<FoundDateTimeKind>, n: int) -> bool {
    forall|i: int| 0 <= i < n && #[trigger] slot_hit(z, q, i) ==> i64::MIN <= slot_cand(z, q, i) <= i64::MAX && has_normal(rs, q_dt(q, type_before(z, i), slot_cand(z, q, i) as i64))
}

// the instant an entry is ordered by
spec fn entry_key(k: FoundDateTimeKind) -> int {
    match k {
        FoundDateTimeKind::Normal(dt) => dt.unix_time as int,
        FoundDateTimeKind::Skipped { before_transition, after_transition } => before_transition.unix_time as int,
    }
}

// C06: ascending order of instant
spec fn entries_ascending(rs: Seq<FoundDateTimeKind>) -> bool {
    forall|i: int, j: int| 0 <= i < j < rs.len() ==> entry_key(#[trigger] rs[i]) <= entry_key(#[trigger] rs[j])
}

// C05: no instant is reported twice as a valid result (valid results strictly ascend)
spec fn normals_increasing(rs: Seq<FoundDateTimeKind>) -> bool {
    forall|i: int, j: int| 0 <= i < j < rs.len() && (#[trigger] rs[i]) is Normal && (#[trigger] rs[j]) is Normal ==> entry_key(rs[i]) < entry_key(rs[j])
}

// everything reported so far lies at or before instant b, valid results strictly before
spec fn entries_below(rs: Seq<FoundDateTimeKind>, b: int) -> bool {
    forall|i: int| 0 <= i < rs.len() ==> entry_key(#[trigger] rs[i]) <= b && (rs[i] is Normal ==> entry_key(rs[i]) < b)
}

// C06: the date-time an entry contributes as the earliest / latest answer
spec fn entry_earliest(k: FoundDateTimeKind) -> DateTime {
    match k {
        FoundDateTimeKind::Normal(dt) => dt,
        FoundDateTimeKind::Skipped { before_transition, after_transition } => before_transition,
    }
}

spec fn entry_latest(k: FoundDateTimeKind) -> DateTime {
    match k {
        FoundDateTimeKind::Normal(dt) => dt,
        FoundDateTimeKind::Skipped { before_transition, after_transition } => after_transition,
    }
}

// ---- the DST-rule branch of the search ---------------------------------------------------------------------

// start and end instants strictly alternate in every year (the class C04's quantifier names, without coincidences:
// known findings F3 / F4 / F2 live outside it)
spec fn strict_interleaving(a: AlternateTime) -> bool {
    ||| (forall|y: int| alt_s(a, y) < #[trigger] alt_e(a, y) && alt_e(a, y) < alt_s(a, y + 1))
    ||| (forall|y: int| alt_e(a, y) < #[trigger] alt_s(a, y) && alt_s(a, y) < alt_e(a, y + 1))
}

// candidate instants of a searched civil time in year y: within two days of that year
spec fn near_year(u: int, y: int) -> bool {
    (dby(y) - 2) * 86400 <= u <= (dby(y + 1) + 2) * 86400
}

// the seven instants the search looks at for searched year y, in the order it walks them: the start/end instants of the years
// y-1, y, y+1 (pairwise swapped for an end-first rule) and a sentinel
spec fn rule_times(a: AlternateTime, y: int, sorted: bool) -> Seq<int> {
    if sorted {
        seq![alt_s(a, y - 1), alt_e(a, y - 1), alt_s(a, y), alt_e(a, y), alt_s(a, y + 1), alt_e(a, y + 1), i64::MAX as int]
    } else {
        seq![alt_e(a, y - 1), alt_s(a, y - 1), alt_e(a, y), alt_s(a, y), alt_e(a, y + 1), alt_s(a, y + 1), i64::MAX as int]
    }
}

// is the clock on daylight time in the segment that ends at the k-th of these instants?
spec fn seg_is_dst(sorted: bool, k: int) -> bool {
    (k % 2 == 1) == sorted
}

spec fn seg_type(a: AlternateTime, sorted: bool, k: int) -> LocalTimeType {
    if seg_is_dst(sorted, k) { a.dst } else { a.std }
}

// u lies in segment k of the walk that starts after instant p0 (the last table transition, or -infinity)
spec fn in_seg(t: Seq<int>, p0: int, k: int, u: int) -> bool {
    &&& 0 <= k <= 6
    &&& p0 <= u
    &&& (k > 0 ==> t[k - 1] <= u)
    &&& u < t[k]
}

spec fn times_increasing(t: Seq<int>) -> bool {
    t.len() == 7 && t[0] < t[1] && t[1] < t[2] && t[2] < t[3] && t[3] < t[4] && t[4] < t[5] && t[5] < t[6]
}

// completeness record of the walk: every segment k in [lo, hi) whose candidate falls into it has been reported
spec fn segs_found(q: FindQuery, a: AlternateTime, sorted: bool, t: Seq<int>, p0: int, rs: Seq<FoundDateTimeKind>, lo: int, hi: int) -> bool {
    forall|k: int| lo <= k < hi && #[trigger] in_seg(t, p0, k, q_civil(q) - seg_type(a, sorted, k).ut_offset)
        ==> has_normal(rs, q_dt(q, seg_type(a, sorted, k), (q_civil(q) - seg_type(a, sorted, k).ut_offset) as i64))
}

// the instant after which the trailing rule applies
spec fn rule_from(z: TimeZoneRef) -> int {
    if z.transitions@.len() > 0 { g_spec(z.leap_seconds@, z.transitions@[z.transitions@.len() - 1].unix_leap_time as int) } else { i64::MIN as int }
}

// scope of the proof for zones with a DST rule: strictly interleaving rule (outside: known findings F2 / F3 / F4), both candidate
// instants inside the year range of the rule evaluator (outside: known finding F5)
spec fn rule_scope(z: TimeZoneRef, q: FindQuery) -> bool {
    match *z.extra_rule {
        Some(TransitionRule::Alternate(a)) => strict_interleaving(a) && alt_u_ok(q_civil(q) - a.std.ut_offset) && alt_u_ok(q_civil(q) - a.dst.ut_offset),
        _ => true,
    }
}

// C06 in a DST-rule zone: entry k reports the gap of the walk's j-th instant T_j (a start or end instant of the rule in the years
// y-1..y+1, after the last table transition): both date-times at T_j, the clocks of the segments before / after it, C14 invariant,
// T_j + a <= searched time < T_j + b
spec fn walk_gap(q: FindQuery, a: AlternateTime, sorted: bool, t: Seq<int>, p0: int, j: int, k: FoundDateTimeKind) -> bool {
    match k {
        FoundDateTimeKind::Skipped { before_transition, after_transition } => {
            &&& 0 <= j <= 5
            &&& p0 < t[j]
            &&& before_transition.unix_time == t[j]
            &&& after_transition.unix_time == t[j]
            &&& before_transition.nanoseconds == q.nanoseconds
            &&& after_transition.nanoseconds == q.nanoseconds
            &&& before_transition.local_time_type == seg_type(a, sorted, j)
            &&& after_transition.local_time_type == seg_type(a, sorted, j + 1)
            &&& dt_inv(before_transition)
            &&& dt_inv(after_transition)
            &&& t[j] + before_transition.local_time_type.ut_offset <= q_civil(q) < t[j] + after_transition.local_time_type.ut_offset
        },
        FoundDateTimeKind::Normal(_) => false,
    }
}

// C06 ("no gap is reported otherwise") for zones with a DST rule: a skipped result is the gap of a table transition or of a rule instant
spec fn gaps_sound_rule(z: TimeZoneRef, q: FindQuery, a: AlternateTime, sorted: bool, t: Seq<int>, rs: Seq<FoundDateTimeKind>) -> bool {
    forall|i: int| 0 <= i < rs.len() && (#[trigger] rs[i]) is Skipped ==>
        (exists|j: int| #[trigger] table_gap(z, q, j, rs[i])) || (exists|j: int| #[trigger] walk_gap(q, a, sorted, t, rule_from(z), j, rs[i]))
}

// the searched time falls into the gap of the walk's j-th instant
spec fn walk_gap_cond(q: FindQuery, a: AlternateTime, sorted: bool, t: Seq<int>, p0: int, j: int) -> bool {
    &&& 0 <= j <= 5
    &&& p0 < t[j]
    &&& t[j] + seg_type(a, sorted, j).ut_offset <= q_civil(q) < t[j] + seg_type(a, sorted, j + 1).ut_offset
}

spec fn has_walk_gap(q: FindQuery, a: AlternateTime, sorted: bool, t: Seq<int>, p0: int, j: int, rs: Seq<FoundDateTimeKind>) -> bool {
    exists|i: int| 0 <= i < rs.len() && #[trigger] walk_gap(q, a, sorted, t, p0, j, rs[i])
}

// C06 (completeness) for the rule instants the walk looks at
spec fn walk_gaps_found(q: FindQuery, a: AlternateTime, sorted: bool, t: Seq<int>, p0: int, rs: Seq<FoundDateTimeKind>, hi: int) -> bool {
    forall|j: int| 0 <= j < hi && #[trigger] walk_gap_cond(q, a, sorted, t, p0, j) ==> has_walk_gap(q, a, sorted, t, p0, j, rs)
}

// the DST rule of a zone that has one
spec fn zone_alt(z: TimeZoneRef) -> AlternateTime {
    match *z.extra_rule {
        Some(TransitionRule::Alternate(a)) => a,
        _ => arbitrary(),
    }
}

// C06 in a DST-rule zone, stated over ALL start/end instants of the rule (any year): the searched time lies in the gap of the
// start instant (std -> dst) or end instant (dst -> std) of year yy, and that instant comes after the table
spec fn rule_gap_cond(q: FindQuery, a: AlternateTime, p0: int, yy: int, is_start: bool) -> bool {
    let t = if is_start { alt_s(a, yy) } else { alt_e(a, yy) };
    let before = if is_start { a.std } else { a.dst };
    let after = if is_start { a.dst } else { a.std };
    &&& p0 < t
    &&& t + before.ut_offset <= q_civil(q) < t + after.ut_offset
}

// position of that instant in the walk of searched year y
spec fn walk_index(sorted: bool, y: int, yy: int, is_start: bool) -> int {
    2 * (yy - y + 1) + (if is_start == sorted { 0int } else { 1 })
}

spec fn same_index(i: int, j: int) -> bool {
    i == j
}
