// Assumed specifications for `core` integer methods that vstd does not specify.
// Each one is cross-checked against the real method by a loop-free, full-domain Kani harness
// (kani/std_specs.rs, thorough tier).  Spec `/` and `%` on `int` are Euclidean.

pub assume_specification[ i64::rem_euclid ](x: i64, y: i64) -> (r: i64)
    requires
        y != 0,
        !(x == i64::MIN && y == -1),
    ensures
        r as int == (x as int) % (y as int),
;

pub assume_specification[ i128::rem_euclid ](x: i128, y: i128) -> (r: i128)
    requires
        y != 0,
        !(x == i128::MIN && y == -1),
    ensures
        r as int == (x as int) % (y as int),
;

pub assume_specification[ i128::div_euclid ](x: i128, y: i128) -> (r: i128)
    requires
        y != 0,
        !(x == i128::MIN && y == -1),
    ensures
        r as int == (x as int) / (y as int),
;

pub assume_specification[ i64::abs ](x: i64) -> (r: i64)
    requires
        x != i64::MIN,
    ensures
        r as int == (if x < 0 { -(x as int) } else { x as int }),
;

pub assume_specification[ i32::saturating_abs ](x: i32) -> (r: i32)
    ensures
        r as int == (if x == i32::MIN { i32::MAX as int } else if x < 0 { -(x as int) } else { x as int }),
;

pub assume_specification[ i64::saturating_sub ](x: i64, y: i64) -> (r: i64)
    ensures
        r as int == (if x as int - y as int > i64::MAX as int { i64::MAX as int } else if (x as int - y as int) < i64::MIN as int { i64::MIN as int } else { x as int - y as int }),
;

pub assume_specification[ i32::saturating_sub ](x: i32, y: i32) -> (r: i32)
    ensures
        r as int == (if x as int - y as int > i32::MAX as int { i32::MAX as int } else if (x as int - y as int) < i32::MIN as int { i32::MIN as int } else { x as int - y as int }),
;

// not used by the unchanged tree; specified so that edits using these common methods can still be decided
pub assume_specification[ i32::rem_euclid ](x: i32, y: i32) -> (r: i32)
    requires
        y != 0,
        !(x == i32::MIN && y == -1),
    ensures
        r as int == (x as int) % (y as int),
;

pub assume_specification[ i32::div_euclid ](x: i32, y: i32) -> (r: i32)
    requires
        y != 0,
        !(x == i32::MIN && y == -1),
    ensures
        r as int == (x as int) / (y as int),
;

pub assume_specification[ i64::div_euclid ](x: i64, y: i64) -> (r: i64)
    requires
        y != 0,
        !(x == i64::MIN && y == -1),
    ensures
        r as int == (x as int) / (y as int),
;

pub assume_specification[ i32::abs ](x: i32) -> (r: i32)
    requires
        x != i32::MIN,
    ensures
        r as int == (if x < 0 { -(x as int) } else { x as int }),
;

pub assume_specification[ i64::saturating_abs ](x: i64) -> (r: i64)
    ensures
        r as int == (if x == i64::MIN { i64::MAX as int } else if x < 0 { -(x as int) } else { x as int }),
;

pub assume_specification[ i64::saturating_add ](x: i64, y: i64) -> (r: i64)
    ensures
        r as int == (if x as int + y as int > i64::MAX as int { i64::MAX as int } else if (x as int + y as int) < i64::MIN as int { i64::MIN as int } else { x as int + y as int }),
;

pub assume_specification[ i32::saturating_add ](x: i32, y: i32) -> (r: i32)
    ensures
        r as int == (if x as int + y as int > i32::MAX as int { i32::MAX as int } else if (x as int + y as int) < i32::MIN as int { i32::MIN as int } else { x as int + y as int }),
;

pub assume_specification[ i32::wrapping_abs ](x: i32) -> (r: i32)
    ensures
        r as int == (if x == i32::MIN { i32::MIN as int } else if x < 0 { -(x as int) } else { x as int }),
;

pub assume_specification[ i64::wrapping_abs ](x: i64) -> (r: i64)
    ensures
        r as int == (if x == i64::MIN { i64::MIN as int } else if x < 0 { -(x as int) } else { x as int }),
;

pub assume_specification[ i32::unsigned_abs ](x: i32) -> (r: u32)
    ensures
        r as int == (if x < 0 { -(x as int) } else { x as int }),
;

pub assume_specification[ i64::unsigned_abs ](x: i64) -> (r: u64)
    ensures
        r as int == (if x < 0 { -(x as int) } else { x as int }),
;
