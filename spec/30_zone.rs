// S-LEAP and S-ZONE: leap-second table, local time types, zone well-formedness, table lookup.
// Written from the property sentences (C03, C12, C13), not from the code.

// ---- designations and local time types -------------------------------------------------------

spec fn tz_char_ok(b: u8) -> bool {
    (0x30 <= b <= 0x39) || (0x41 <= b <= 0x5a) || (0x61 <= b <= 0x7a) || b == 0x2b || b == 0x2d
}

// representation invariant of the length-prefixed 8-byte designation buffer
spec fn tzstr_wf(s: TzAsciiStr) -> bool {
    &&& 3 <= s.bytes[0] <= 7
    &&& forall|i: int| 1 <= i <= s.bytes[0] ==> tz_char_ok(#[trigger] s.bytes[i])
    &&& forall|i: int| s.bytes[0] < i < 8 ==> #[trigger] s.bytes[i] == 0
}

spec fn tzstr_view(s: TzAsciiStr) -> Seq<u8> {
    s.bytes@.subrange(1, 1 + s.bytes[0] as int)
}

spec fn desig_ok(input: Seq<u8>) -> bool {
    &&& 3 <= input.len() <= 7
    &&& forall|i: int| 0 <= i < input.len() ==> tz_char_ok(#[trigger] input[i])
}

spec fn ltt_wf(t: LocalTimeType) -> bool {
    &&& t.ut_offset != i32::MIN
    &&& match t.time_zone_designation {
        Some(d) => tzstr_wf(d),
        None => true,
    }
}

// "exactly the same local time type (offset, DST flag and designation)"
spec fn ltt_same(a: LocalTimeType, b: LocalTimeType) -> bool {
    &&& a.ut_offset == b.ut_offset
    &&& a.is_dst == b.is_dst
    &&& match (a.time_zone_designation, b.time_zone_designation) {
        (Some(x), Some(y)) => x.bytes@ == y.bytes@,
        (None, None) => true,
        _ => false,
    }
}

// ---- leap seconds ----------------------------------------------------------------------------

spec fn leap_step_ok(s: Seq<LeapSecond>, i: int) -> bool {
    &&& s[i + 1].unix_leap_time - s[i].unix_leap_time >= 2419199
    &&& (s[i + 1].correction - s[i].correction == 1 || s[i + 1].correction - s[i].correction == -1)
}

// C13: "empty or starts at a non-negative time with correction +-1 and continues with steps of +-1
// at least 28 days minus one second apart"
spec fn leaps_wf(s: Seq<LeapSecond>) -> bool {
    s.len() == 0 || {
        &&& s[0].unix_leap_time >= 0
        &&& (s[0].correction == 1 || s[0].correction == -1)
        &&& forall|i: int| 0 <= i < s.len() - 1 ==> leap_step_ok(s, i)
    }
}

// cumulative correction in force before record i
spec fn leap_prev_corr(s: Seq<LeapSecond>, i: int) -> int {
    if i <= 0 { 0 } else { s[i - 1].correction as int }
}

// does record i already apply at count t?  An inserted second (correction goes up) occupies count L itself
// and shares the UTC value of the second that follows it, so the record applies strictly after L; a deleted
// second (correction goes down) takes effect at L.
spec fn leap_applies(s: Seq<LeapSecond>, i: int, t: int) -> bool {
    if s[i].correction as int > leap_prev_corr(s, i) {
        (s[i].unix_leap_time as int) < t
    } else {
        s[i].unix_leap_time as int <= t
    }
}

// correction in force at count t, looking at the first n records
spec fn corr_at(s: Seq<LeapSecond>, t: int, n: int) -> int
    decreases n,
{
    if n <= 0 {
        0
    } else if leap_applies(s, n - 1, t) {
        s[n - 1].correction as int
    } else {
        corr_at(s, t, n - 1)
    }
}

// count -> UTC ("the UTC instant that count T denotes")
spec fn g_spec(s: Seq<LeapSecond>, t: int) -> int {
    t - corr_at(s, t, s.len() as int)
}

// UTC -> count, characterised without reference to any algorithm: T is the largest count whose UTC value
// is <= u (g_spec is monotone, lemma_g_mono).  For an inserted second this picks the later of the two
// counts sharing the UTC value; for a UTC value deleted by a negative leap second the count before it.
spec fn is_f(s: Seq<LeapSecond>, u: int, t: int) -> bool {
    g_spec(s, t) <= u < g_spec(s, t + 1)
}

// the UTC values that do not exist because a negative leap second removed them
spec fn utc_deleted(s: Seq<LeapSecond>, u: int) -> bool {
    exists|i: int| 0 <= i < s.len() && (s[i].correction as int) < leap_prev_corr(s, i) && u == #[trigger] s[i].unix_leap_time - leap_prev_corr(s, i)
}

// ---- zones -----------------------------------------------------------------------------------

spec fn transitions_sorted(t: Seq<Transition>) -> bool {
    forall|i: int, j: int| 0 <= i < j < t.len() ==> t[i].unix_leap_time < t[j].unix_leap_time
}

spec fn trans_step_lt(t: Seq<Transition>, i: int) -> bool {
    t[i].unix_leap_time < t[i + 1].unix_leap_time
}

// "transition times strictly increase" (function-symbol trigger: no matching loop through t[i + 1])
spec fn transitions_step_sorted(t: Seq<Transition>) -> bool {
    forall|i: int| 0 <= i < t.len() - 1 ==> #[trigger] trans_step_lt(t, i)
}

spec fn indices_ok(t: Seq<Transition>, n: int) -> bool {
    forall|i: int| 0 <= i < t.len() ==> (#[trigger] t[i]).local_time_type_index < n
}

spec fn types_wf(ts: Seq<LocalTimeType>) -> bool {
    forall|i: int| 0 <= i < ts.len() ==> ltt_wf(#[trigger] ts[i])
}

// everything C13 demands except the trailing-rule consistency clause
spec fn zone_wf_base(z: TimeZoneRef) -> bool {
    &&& z.local_time_types@.len() > 0
    &&& indices_ok(z.transitions@, z.local_time_types@.len() as int)
    &&& transitions_step_sorted(z.transitions@)
    &&& leaps_wf(z.leap_seconds@)
}

// type invariants of the parts (established by their own constructors)
spec fn zone_parts_wf(z: TimeZoneRef) -> bool {
    &&& types_wf(z.local_time_types@)
    &&& match *z.extra_rule {
        Some(rule) => rule_wf(rule),
        None => true,
    }
}

// the trailing-rule clause of C13: with both transitions and a rule, the rule prescribes at the last
// transition's instant exactly the last transition's local time type
spec fn zone_rule_consistent(z: TimeZoneRef) -> bool {
    match *z.extra_rule {
        Some(rule) => z.transitions@.len() > 0 ==> {
            let last = z.transitions@[z.transitions@.len() - 1];
            let u = g_spec(z.leap_seconds@, last.unix_leap_time as int);
            &&& last.unix_leap_time != i64::MIN
            &&& i64::MIN <= u <= i64::MAX
            &&& rule_type_at(rule, u) is Some
            &&& ltt_same(z.local_time_types@[last.local_time_type_index as int], rule_type_at(rule, u)->Some_0)
        },
        None => true,
    }
}

spec fn zone_wf(z: TimeZoneRef) -> bool {
    zone_wf_base(z) && zone_rule_consistent(z)
}

// C03: the local time type in force at count t for a non-empty table, t before the last transition:
// the type of the latest transition at or before t, the zone's first type before the first transition
spec fn in_slot(tr: Seq<Transition>, i: int, t: int) -> bool {
    0 <= i < tr.len() - 1 && tr[i].unix_leap_time <= t < tr[i + 1].unix_leap_time
}

spec fn table_type_is(tr: Seq<Transition>, types: Seq<LocalTimeType>, t: int, lt: LocalTimeType) -> bool {
    &&& (t < tr[0].unix_leap_time ==> lt == types[0])
    &&& (forall|i: int| #[trigger] in_slot(tr, i, t) ==> lt == types[tr[i].local_time_type_index as int])
}

// C03 as a relation between the zone, the UTC instant and the lookup's answer
spec fn lookup_ok(z: TimeZoneRef, u: int, lt: LocalTimeType) -> bool {
    let tr = z.transitions@;
    let types = z.local_time_types@;
    if tr.len() == 0 {
        match *z.extra_rule {
            Some(rule) => rule_answer(rule, u, lt),
            None => lt == types[0],
        }
    } else {
        exists|t: int| #[trigger] is_f(z.leap_seconds@, u, t) && i64::MIN <= t <= i64::MAX && (
            if t >= tr[tr.len() - 1].unix_leap_time {
                match *z.extra_rule {
                    Some(rule) => rule_answer(rule, u, lt),
                    None => false,
                }
            } else {
                table_type_is(tr, types, t, lt)
            })
    }
}

// when the lookup refuses
spec fn lookup_err(z: TimeZoneRef, u: int, e: TzError) -> bool {
    let tr = z.transitions@;
    if tr.len() == 0 {
        match *z.extra_rule {
            Some(rule) => e == TzError::OutOfRange && rule_refuses(rule, u),
            None => false,
        }
    } else {
        ||| (e == TzError::OutOfRange && leap_conv_overflows(z.leap_seconds@, u))
        ||| (exists|t: int| #[trigger] is_f(z.leap_seconds@, u, t) && t >= tr[tr.len() - 1].unix_leap_time && (
            match *z.extra_rule {
                Some(rule) => e == TzError::OutOfRange && rule_refuses(rule, u),
                None => e == TzError::NoAvailableLocalTimeType,
            }))
    }
}

// the UTC -> count conversion leaves the i64 range only if some u + correction does
spec fn leap_conv_overflows(s: Seq<LeapSecond>, u: int) -> bool {
    exists|k: int| 0 <= k < s.len() && !(i64::MIN <= u + #[trigger] s[k].correction <= i64::MAX)
}

// known finding F2 (C04) propagates here: when the trailing rule's answer at the last transition is in the
// rule evaluator's known-defect class, the constructor's decision on the rule clause is left unspecified
spec fn zone_defect_at_last(z: TimeZoneRef) -> bool {
    match *z.extra_rule {
        Some(rule) => z.transitions@.len() > 0 && rule_defect_class(rule, g_spec(z.leap_seconds@, z.transitions@[z.transitions@.len() - 1].unix_leap_time as int)),
        None => false,
    }
}

// C13 as a relation between a candidate zone and the constructor's verdict: Ok exactly for well-formed zones,
// and every error names a violated clause
spec fn zone_verdict(z: TimeZoneRef, r: Result<(), TzError>) -> bool {
    match r {
        Ok(_) => zone_wf_base(z) && (!zone_defect_at_last(z) ==> zone_rule_consistent(z)),
        Err(e) => match e {
            TzError::TimeZone(TimeZoneError::NoLocalTimeType) => z.local_time_types@.len() == 0,
            TzError::TimeZone(TimeZoneError::InvalidLocalTimeTypeIndex) => z.local_time_types@.len() > 0 && !indices_ok(z.transitions@, z.local_time_types@.len() as int),
            TzError::TimeZone(TimeZoneError::InvalidTransition) => !transitions_step_sorted(z.transitions@),
            TzError::TimeZone(TimeZoneError::InvalidLeapSecond) => !leaps_wf(z.leap_seconds@),
            TzError::TimeZone(TimeZoneError::InconsistentExtraRule) => zone_wf_base(z) && (!zone_defect_at_last(z) ==> !zone_rule_consistent(z)),
            TzError::OutOfRange => zone_wf_base(z) && !zone_rule_consistent(z),
            _ => false,
        },
    }
}

// ---- the owned zone: same data, held in vectors --------------------------------------------------------

// a borrowed zone that views exactly the owned zone's data (zone predicates depend on the views only)
spec fn zone_views(zr: TimeZoneRef, z: TimeZone) -> bool {
    &&& zr.transitions@ == z.transitions@
    &&& zr.local_time_types@ == z.local_time_types@
    &&& zr.leap_seconds@ == z.leap_seconds@
    &&& *zr.extra_rule == z.extra_rule
}

// type invariant of the owned zone, established by TimeZone::new: its data passed the borrowed zone's check
spec fn owned_zone_wf(z: TimeZone) -> bool {
    exists|zr: TimeZoneRef| zone_views(zr, z) && zone_parts_wf(zr) && #[trigger] zone_verdict(zr, Ok(()))
}

spec fn verdict_of(r: Result<TimeZone, TzError>) -> Result<(), TzError> {
    match r {
        Ok(_) => Ok(()),
        Err(e) => Err(e),
    }
}
