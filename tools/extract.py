"""Mechanical extraction of the real tz-rs functions into one Verus file.

See DESIGN.md section 2.1.  Everything copied from /repo/src is token-for-token the source text,
except for the rewrite rules R1..R7, each of which is counted and reported.  Everything that is
*added* (contracts, loop invariants, ghost blocks) is wrapped in /*@<*/ ... /*@>*/ markers so that
the fidelity self-check can strip it again and compare with the source.
"""
import base64
import hashlib
import json
import os
import re
import sys

sys.path.insert(0, os.path.dirname(os.path.abspath(__file__)))
import rustlex as rl

VERIF = os.path.dirname(os.path.dirname(os.path.abspath(__file__)))

INS_L, INS_R = "/*@<*/", "/*@>*/"


class Undecided(Exception):
    """extraction could not be carried out mechanically -> exit 2, never an alarm"""


# ----------------------------------------------------------------------------------------------
# overlay (.vc) parsing
# ----------------------------------------------------------------------------------------------

class Contract:
    def __init__(self, key, path, line):
        self.key = key
        self.where = "%s:%d" % (path, line)
        self.requires = ""
        self.ensures = ""
        self.decreases = ""
        self.ret = "r"
        self.loops = {}  # ordinal -> text
        self.inserts = []  # (mode, regex, occurrence, text)
        self.attrs = []
        self.external_body = False
        self.backed_by = ""
        self.no_ret_name = False
        self.opens = ""  # text inserted at the very start of the body


_dir_re = re.compile(r"^(fn|requires|ensures|decreases|ret|loop|before|after|attr|body|backed_by|open)\b(.*)$")


def parse_overlay(path):
    out = {}
    cur = None
    field = None
    with open(path) as f:
        lines = f.read().split("\n")
    for ln, line in enumerate(lines, 1):
        if line.startswith("//") or (not line.strip() and field is None):
            continue
        if line[:1] not in (" ", "\t", "") and _dir_re.match(line):
            m = _dir_re.match(line)
            d, rest = m.group(1), m.group(2).strip()
            if d == "fn":
                cur = Contract(rest, os.path.relpath(path, VERIF), ln)
                if rest in out:
                    raise Undecided("duplicate contract for %s" % rest)
                out[rest] = cur
                field = None
                continue
            if cur is None:
                raise Undecided("%s:%d: directive outside fn" % (path, ln))
            rest = rest.rstrip(":").strip() if d not in ("before", "after") else rest
            if d in ("requires", "ensures", "decreases", "open"):
                field = (d,)
                if rest:
                    _append(cur, field, rest)
            elif d == "ret":
                cur.ret = rest.lstrip(":").strip()
                if cur.ret == "-":
                    cur.no_ret_name = True
                field = None
            elif d == "loop":
                field = ("loop", int(rest))
                cur.loops[int(rest)] = ""
            elif d in ("before", "after"):
                m2 = re.match(r"^/(.*)/\s*(?:#(\d+))?\s*:?\s*$", rest)
                if not m2:
                    raise Undecided("%s:%d: bad anchor %r" % (path, ln, rest))
                cur.inserts.append([d, m2.group(1), int(m2.group(2) or 1), ""])
                field = ("ins", len(cur.inserts) - 1)
            elif d == "attr":
                cur.attrs.append(rest.lstrip(":").strip())
                field = None
            elif d == "body":
                if rest.lstrip(":").strip() != "external":
                    raise Undecided("%s:%d: unknown body directive" % (path, ln))
                cur.external_body = True
                field = None
            elif d == "backed_by":
                cur.backed_by = rest.lstrip(":").strip()
                field = None
            continue
        if field is None:
            if line.strip():
                raise Undecided("%s:%d: text outside a directive: %r" % (path, ln, line))
            continue
        _append(cur, field, line)
    return out


def _append(c, field, text):
    if field[0] == "requires":
        c.requires += text + "\n"
    elif field[0] == "ensures":
        c.ensures += text + "\n"
    elif field[0] == "decreases":
        c.decreases += text + "\n"
    elif field[0] == "open":
        c.opens += text + "\n"
    elif field[0] == "loop":
        c.loops[field[1]] += text + "\n"
    elif field[0] == "ins":
        c.inserts[field[1]][3] += text + "\n"


# ----------------------------------------------------------------------------------------------
# library files (spec/*.rs, lemmas/*.rs): split into column-0 items
# ----------------------------------------------------------------------------------------------

_lib_head = re.compile(r"^(?:#\[[^\n]*\]\s*\n)*(?:pub\s+)?(?:(?:open|closed|uninterp|broadcast|const)\s+)*(?:spec|proof|exec)?\s*(?:const\s+)?(fn|const|struct|enum|broadcast\s+use|use)\b")


def split_library(path):
    """returns [(name, kind, text)].  Convention for library files: an item starts at a column-0 line
    (attributes included) and ends at the next line that starts with '}' or ';' at column 0, or on
    the same line if that line ends with ';' and opens no brace."""
    src = open(path).read()
    lines = src.split("\n")
    items = []
    i = 0
    while i < len(lines):
        line = lines[i]
        if not line.strip() or line.startswith("//"):
            i += 1
            continue
        if line[0] in " \t":
            raise Undecided("%s:%d: unexpected indented line outside an item" % (path, i + 1))
        j = i
        while lines[j].startswith("#["):
            j += 1
        k = j
        if not (lines[j].rstrip().endswith(";") and "{" not in lines[j]):
            k = j + 1
            while k < len(lines) and not (lines[k].startswith("}") or lines[k].startswith(";")):
                k += 1
            if k >= len(lines):
                raise Undecided("%s:%d: unterminated item" % (path, i + 1))
        text = "\n".join(lines[i:k + 1])
        head = lines[j]
        m = re.search(r"\bfn\s+(\w+)", head)
        ma = re.search(r"assume_specification\s*\[\s*([^\]]+?)\s*\]", head)
        if ma:
            kind, name = "assume_specification", ma.group(1)
        elif m:
            kind = "proof" if re.search(r"\bproof\s+fn\b", head) else ("spec" if re.search(r"\bspec\b", head) else "exec")
            name = m.group(1)
        else:
            m2 = re.match(r"(?:pub\s+)?(?:spec\s+)?(const|struct|enum|use|broadcast use)\s+(\w+)?", head)
            kind = m2.group(1) if m2 else "other"
            name = (m2.group(2) if m2 and m2.group(2) else "item%d" % i)
        items.append((name, kind, text))
        i = k + 1
    return items


# ----------------------------------------------------------------------------------------------
# R2: crate-local macro expansion (single arm, $x:expr / $x:ty parameters)
# ----------------------------------------------------------------------------------------------

def collect_macros(src, path):
    macros = {}
    for it in rl.parse_items(src):
        if it.kind != "macro_rules":
            continue
        body = src[it.body[0]:it.body[1]]  # { (params) => { ... }; }
        st = rl.sig(rl.lex(body))
        # st[0] = '{', st[1] = '(' ...
        if st[1].text != "(":
            raise Undecided("%s: macro %s: unsupported shape" % (path, it.name))
        k = rl.match_close(st, 1)
        params_txt = body[st[1].end:st[k].pos]
        params = []
        for p in [x.strip() for x in params_txt.split(",") if x.strip()]:
            m = re.match(r"^\$(\w+):(expr|ty|ident)$", p)
            if not m:
                raise Undecided("%s: macro %s: unsupported parameter %r" % (path, it.name, p))
            params.append(m.group(1))
        if st[k + 1].text != "=" or st[k + 2].text != ">" or st[k + 3].text != "{":
            raise Undecided("%s: macro %s: unsupported shape" % (path, it.name))
        e = rl.match_close(st, k + 3)
        # single arm only
        rest = [t.text for t in st[e + 1:]]
        if rest not in (["}"], [";", "}"]):
            raise Undecided("%s: macro %s has more than one arm" % (path, it.name))
        inner = body[st[k + 3].end:st[e].pos]
        macros[it.name] = (params, inner)
    return macros


def expand_macros(src, macros, counts):
    """textual expansion of `name!(args)` for crate-local macros, repeated until none is left."""
    for _ in range(8):
        toks = rl.sig(rl.lex(src))
        hit = None
        for i, t in enumerate(toks):
            if t.kind == rl.IDENT and t.text in macros and i + 2 < len(toks) and toks[i + 1].text == "!" and toks[i + 2].text == "(" and (i == 0 or toks[i - 1].text != "macro_rules"):
                hit = i
                break
        if hit is None:
            return src
        i = hit
        k = rl.match_close(toks, i + 2)
        args_txt = src[toks[i + 2].end:toks[k].pos]
        # split on top level commas
        at = rl.sig(rl.lex(args_txt))
        args, depth, start = [], 0, 0
        for a in at:
            if a.text in rl.OPEN:
                depth += 1
            elif a.text in rl.CLOSE:
                depth -= 1
            elif a.text == "," and depth == 0:
                args.append(args_txt[start:a.pos].strip())
                start = a.end
        if args_txt[start:].strip():
            args.append(args_txt[start:].strip())
        params, inner = macros[toks[i].text]
        if len(args) != len(params):
            raise Undecided("macro %s: arity mismatch" % toks[i].text)
        body = inner
        for p, a in sorted(zip(params, args), key=lambda x: -len(x[0])):
            body = re.sub(r"\$" + p + r"\b", lambda m: a, body)
        end = toks[k].end
        # item-position invocation `name!();` -> drop the ';'
        if k + 1 < len(toks) and toks[k + 1].text == ";" and inner.lstrip().startswith(("///", "#[", "pub", "fn", "const")):
            end = toks[k + 1].end
        counts["R2"] = counts.get("R2", 0) + 1
        src = src[:toks[i].pos] + body + src[end:]
    raise Undecided("macro expansion did not terminate")


# ----------------------------------------------------------------------------------------------
# R3 / R4 rewrites (inside function bodies)
# ----------------------------------------------------------------------------------------------

def _rw(kind, orig, new):
    return "/*@%s[*/%s/*@]%s:%s*/" % (kind, new, kind, base64.b64encode(orig.encode()).decode())


_rw_re = re.compile(r"/\*@(R\w+)\[\*/(.*?)/\*@\]\1:([A-Za-z0-9+/=]*)\*/", re.S)


def restore_rewrites(text):
    return _rw_re.sub(lambda m: base64.b64decode(m.group(3)).decode(), text)


def strip_inserts(text):
    out, i = [], 0
    while True:
        j = text.find(INS_L, i)
        if j < 0:
            out.append(text[i:])
            break
        out.append(text[i:j])
        k = text.find(INS_R, j)
        if k < 0:
            raise Undecided("unbalanced insert marker")
        i = k + len(INS_R)
    return "".join(out)


def _arm_end(toks, i):
    """toks[i] is the first token of a match-arm expression; returns (end_index_exclusive, next_index)"""
    if toks[i].text == "{":
        k = rl.match_close(toks, i)
        nxt = k + 1
        if nxt < len(toks) and toks[nxt].text == ",":
            nxt += 1
        return k + 1, nxt
    j = i
    while j < len(toks):
        t = toks[j].text
        if t in rl.OPEN:
            j = rl.match_close(toks, j)
        elif t == ",":
            return j, j + 1
        elif t == "}":
            return j, j
        j += 1
    raise Undecided("cannot find end of match arm")


def rewrite_R3(text, counts):
    """slice patterns -> len()/index form.  Two shapes only (anything else: unchanged, Verus will reject
    it and the run ends UNDECIDED)."""
    changed = True
    while changed:
        changed = False
        toks = rl.sig(rl.lex(restore_safe(text)))
        base = text
        toks = rl.sig(rl.lex(base))
        for i, t in enumerate(toks):
            # R3a: match S { [] => A, [.., x] => B }
            if t.kind == rl.IDENT and t.text == "match":
                j = i + 1
                while j < len(toks) and toks[j].text != "{":
                    if toks[j].text in ("(", "["):
                        j = rl.match_close(toks, j)
                    j += 1
                if j + 4 >= len(toks):
                    continue
                tx = [x.text for x in toks[j + 1:j + 5]]
                if tx != ["[", "]", "=", ">"]:
                    continue
                S = base[toks[i + 1].pos:toks[j - 1].end]
                mclose = rl.match_close(toks, j)
                a0 = j + 5
                a_end, nxt = _arm_end(toks, a0)
                A = base[toks[a0].pos:toks[a_end - 1].end]
                pat = [x.text for x in toks[nxt:nxt + 8]]
                if pat[:4] != ["[", ".", ".", ","] or pat[5:8] != ["]", "=", ">"]:
                    continue
                x = pat[4]
                b0 = nxt + 8
                b_end, nxt2 = _arm_end(toks, b0)
                B = base[toks[b0].pos:toks[b_end - 1].end]
                if nxt2 != mclose:
                    continue
                new = "if %s.len() == 0 { %s } else { let %s = &%s[%s.len() - 1]; %s }" % (S, A, x, S, S, B)
                orig = base[t.pos:toks[mclose].end]
                text = base[:t.pos] + _rw("R3", orig, new) + base[toks[mclose].end:]
                counts["R3"] = counts.get("R3", 0) + 1
                changed = True
                break
            # R3b: if let (P, [.., x]) = (E1, E2) { BODY }   (no else)
            if t.kind == rl.IDENT and t.text == "if" and i + 2 < len(toks) and toks[i + 1].text == "let" and toks[i + 2].text == "(":
                pc = rl.match_close(toks, i + 2)
                inner = toks[i + 3:pc]
                # split pattern tuple on top-level comma
                depth, cut = 0, None
                for q, u in enumerate(inner):
                    if u.text in rl.OPEN:
                        depth += 1
                    elif u.text in rl.CLOSE:
                        depth -= 1
                    elif u.text == "," and depth == 0:
                        cut = q
                        break
                if cut is None:
                    continue
                P = base[inner[0].pos:inner[cut - 1].end]
                sp = [u.text for u in inner[cut + 1:]]
                if len(sp) != 6 or sp[:4] != ["[", ".", ".", ","] or sp[5] != "]":
                    continue
                x = sp[4]
                if toks[pc + 1].text != "=" or toks[pc + 2].text != "(":
                    continue
                ec = rl.match_close(toks, pc + 2)
                einner = toks[pc + 3:ec]
                depth, cut = 0, None
                for q, u in enumerate(einner):
                    if u.text in rl.OPEN:
                        depth += 1
                    elif u.text in rl.CLOSE:
                        depth -= 1
                    elif u.text == "," and depth == 0:
                        cut = q
                        break
                if cut is None:
                    continue
                E1 = base[einner[0].pos:einner[cut - 1].end]
                E2 = base[einner[cut + 1].pos:einner[-1].end]
                if toks[ec + 1].text != "{":
                    continue
                bc = rl.match_close(toks, ec + 1)
                if bc + 1 < len(toks) and toks[bc + 1].text == "else":
                    continue
                BODY = base[toks[ec + 1].end:toks[bc].pos]
                new = "if let %s = %s { if %s.len() != 0 { let %s = &%s[%s.len() - 1]; %s } }" % (P, E1, E2, x, E2, E2, BODY)
                orig = base[t.pos:toks[bc].end]
                text = base[:t.pos] + _rw("R3", orig, new) + base[toks[bc].end:]
                counts["R3"] = counts.get("R3", 0) + 1
                changed = True
                break
    return text


def restore_safe(text):
    return text


_r4_re = re.compile(r"(?m)^(\s*)([A-Za-z_][A-Za-z0-9_]*) %= ([^;\n]+);")


def rewrite_R4(text, counts):
    def f(m):
        counts["R4"] = counts.get("R4", 0) + 1
        return m.group(1) + _rw("R4", "%s %%= %s;" % (m.group(2), m.group(3)), "%s = %s %% %s;" % (m.group(2), m.group(2), m.group(3)))
    return _r4_re.sub(f, text)


_r3c_re = re.compile(r"\bOk\(&([a-z_][a-z0-9_]*)\) => \1,")


def rewrite_R3c(text, counts):
    """reference pattern `Ok(&x) => x,` -> `Ok(x) => *x,` (Verus: "ref patterns" unsupported; T: Copy)"""
    def f(m):
        counts["R3"] = counts.get("R3", 0) + 1
        return _rw("R3", m.group(0), "Ok(%s) => *%s," % (m.group(1), m.group(1)))
    return _r3c_re.sub(f, text)


_use_stmt_re = re.compile(r"(?m)^[ \t]+use [^;\n]+;[ \t]*\n")


def strip_inner_use(text, counts):
    def f(m):
        counts["R1u"] = counts.get("R1u", 0) + 1
        return ""
    return _use_stmt_re.sub(f, text)


# ----------------------------------------------------------------------------------------------
# R5: splice contracts into a function
# ----------------------------------------------------------------------------------------------

def ins(text):
    return INS_L + text + INS_R


def _indent(text, pad):
    return "".join(pad + l + "\n" if l.strip() else "\n" for l in text.rstrip("\n").split("\n"))


def splice(fn_text, c, key, counts):
    """fn_text: the (rewritten) function text starting at `const fn` / `fn`.  c: Contract or None."""
    if c is None:
        return fn_text
    its = rl.parse_items(fn_text)
    if len(its) != 1 or its[0].kind != "fn":
        raise Undecided("%s: cannot re-parse function" % key)
    it = its[0]
    edits = []  # (pos, text) insertions in fn_text coordinates
    body_lo, body_hi = it.body_open + 1, it.body_close
    toks = [t for t in rl.sig(rl.lex(fn_text)) if body_lo <= t.pos < body_hi]
    # loops
    loop_toks = [i for i, t in enumerate(toks) if t.kind == rl.IDENT and t.text in ("while", "loop", "for")]
    for n, spec in sorted(c.loops.items()):
        if n >= len(loop_toks):
            raise Undecided("%s: loop %d not found (lost anchor)" % (key, n))
        j = loop_toks[n] + 1
        while toks[j].text != "{":
            if toks[j].text in ("(", "["):
                j = _close_in(toks, j)
            j += 1
        pad = _line_indent(fn_text, toks[loop_toks[n]].pos) + "    "
        edits.append((toks[j].pos, ins("\n" + _indent(spec, pad) + pad[:-4])))
        counts["R5.loop"] = counts.get("R5.loop", 0) + 1
    # anchored inserts
    body = fn_text[body_lo:body_hi]
    for mode, rx, occ, text in c.inserts:
        ms = list(re.finditer(rx, body))
        if len(ms) < occ:
            raise Undecided("%s: anchor /%s/ #%d not found (lost anchor)" % (key, rx, occ))
        m = ms[occ - 1]
        if mode == "before":
            p = body.rfind("\n", 0, m.start()) + 1
        else:
            p = body.find("\n", m.end())
            p = len(body) if p < 0 else p + 1
        pad = _line_indent(fn_text, body_lo + m.start())
        edits.append((body_lo + p, ins(_indent(text, pad))))
        counts["R5.ghost"] = counts.get("R5.ghost", 0) + 1
    if c.opens.strip():
        edits.append((body_lo, ins("\n" + _indent(c.opens, "        "))))
        counts["R5.ghost"] = counts.get("R5.ghost", 0) + 1
    # signature
    spec = ""
    if c.requires.strip():
        spec += "    requires\n" + _indent(c.requires, "        ")
    if c.ensures.strip():
        spec += "    ensures\n" + _indent(c.ensures, "        ")
    if c.decreases.strip():
        spec += "    decreases\n" + _indent(c.decreases, "        ")
    if it.ret_type is not None and not c.no_ret_name:
        edits.append((it.ret_type[0], ins("(%s: " % c.ret)))
        edits.append((it.ret_type[1], ins(")")))
        counts["R5.ret"] = counts.get("R5.ret", 0) + 1
    if spec:
        edits.append((it.body_open, ins("\n" + spec)))
        counts["R5.contract"] = counts.get("R5.contract", 0) + 1
    if c.external_body:
        # R7: body replaced, contract assumed here and proved by the named Kani harness
        orig = fn_text[it.body_open:it.body_close + 1]
        fn_text_new = fn_text[:it.body_open] + _rw("R7", orig, "{ unimplemented!() }") + fn_text[it.body_close + 1:]
        edits = [e for e in edits if e[0] <= it.body_open]
        counts["R7"] = counts.get("R7", 0) + 1
        fn_text = fn_text_new
    out = fn_text
    for pos, text in sorted(edits, key=lambda e: -e[0]):
        out = out[:pos] + text + out[pos:]
    pre = ""
    for a in c.attrs:
        pre += ins(a + "\n")
    if c.external_body:
        pre += ins("#[verifier::external_body]\n")
    return pre + out


def _close_in(toks, i):
    depth = 0
    for j in range(i, len(toks)):
        if toks[j].text in rl.OPEN:
            depth += 1
        elif toks[j].text in rl.CLOSE:
            depth -= 1
            if depth == 0:
                return j
    raise Undecided("unbalanced")


def _line_indent(text, pos):
    s = text.rfind("\n", 0, pos) + 1
    m = re.match(r"[ \t]*", text[s:])
    return m.group(0)


# ----------------------------------------------------------------------------------------------
# main generation
# ----------------------------------------------------------------------------------------------

DROP_ATTR = re.compile(r"^#\[(inline|allow|doc|cfg|non_exhaustive|must_use)\b")


def _is_cfg_test(it):
    return any(re.match(r"#\[cfg\(\s*test\s*\)\]", a[2]) for a in it.attrs)


def _kept_attrs(it):
    return [a[2] for a in it.attrs if not DROP_ATTR.match(a[2])]


class Extraction:
    def __init__(self, repo, cfg_path=None):
        self.repo = repo
        self.cfg = json.load(open(cfg_path or os.path.join(VERIF, "contracts", "extract.json")))
        self.counts = {}
        self.contracts = {}
        for f in sorted(os.listdir(os.path.join(VERIF, "contracts"))):
            if f.endswith(".vc"):
                self.contracts.update(parse_overlay(os.path.join(VERIF, "contracts", f)))
        self.functions = {}  # key -> dict(text, src_sha, file, type, name, has_contract)
        self.types = []  # [(file, text)]
        self.order = []  # output order of chunks: ("type"/"const"/"fn"/"impl_open"/"impl_close", payload)
        self.dropped = []
        self.used_contracts = set()
        self._extract()

    def _extract(self):
        macros = {}
        srcs = {}
        for rel in self.cfg["files"]:
            p = os.path.join(self.repo, "src", rel)
            if not os.path.exists(p):
                raise Undecided("source file %s is missing" % rel)
            srcs[rel] = open(p).read()
            macros.update(collect_macros(srcs[rel], rel))
        self.file_sha = {rel: hashlib.sha256(s.encode()).hexdigest() for rel, s in srcs.items()}
        drop = self.cfg.get("drop", {})
        for rel in self.cfg["files"]:
            src = expand_macros(srcs[rel], macros, self.counts)
            self.order.append(("comment", "// ======== extracted from src/%s ========" % rel))
            for it in rl.parse_items(src):
                self._item(rel, src, it, None, drop.get(rel, []))
        unused = set(self.contracts) - self.used_contracts
        if unused:
            raise Undecided("contracts name functions that no longer exist (lost anchor): %s" % ", ".join(sorted(unused)))

    def _item(self, rel, src, it, impl, drop):
        c = self.counts
        if _is_cfg_test(it):
            c["R6.cfg_test"] = c.get("R6.cfg_test", 0) + 1
            return
        qual = (impl.self_type + "::" if impl else "") + it.name
        if it.kind in ("use", "mod", "type", "macro_rules", "extern", "trait", "static"):
            return
        if it.kind == "macro_call":
            raise Undecided("%s: unexpanded macro item %s" % (rel, it.name))
        if it.kind == "impl":
            if it.trait_impl:
                self.dropped.append("%s::impl %s" % (rel, it.header))
                return
            if it.self_type in drop:
                self.dropped.append("%s::impl %s" % (rel, it.header))
                return
            self.order.append(("impl_open", "impl%s {" % ((" " if not it.header.startswith("<") else "") + it.header)))
            for sub in it.items:
                self._item(rel, src, sub, it, drop)
            self.order.append(("impl_close", "}"))
            return
        if qual in drop or it.name in drop and impl is None:
            self.dropped.append("%s::%s" % (rel, qual))
            return
        attrs = _kept_attrs(it)
        ndrop = len(it.attrs) - len(attrs)
        if ndrop:
            c["R1.attr"] = c.get("R1.attr", 0) + ndrop
        if any(re.match(r'#\[cfg\(feature', a[2]) for a in it.attrs):
            c["R6.cfg_feature_on"] = c.get("R6.cfg_feature_on", 0) + 1
        if it.vis:
            c["R1.vis"] = c.get("R1.vis", 0) + 1
        text = src[it.kw_start:it.end]
        if it.kind in ("struct", "enum", "union"):
            text = self._strip_field_vis_and_docs(text, rel, it.name)
            pre = ""
            for a in attrs:
                # R1: Debug is dropped from derive lists (manual Debug impls are trait impls and are dropped)
                a2 = re.sub(r"\bDebug\s*,\s*", "", a)
                if a2 != a:
                    c["R1.derive_debug"] = c.get("R1.derive_debug", 0) + 1
                pre += a2 + "\n"
            self.order.append(("type", pre + text))
            return
        if it.kind == "const":
            self.order.append(("const", ("    " if impl else "") + text))
            return
        if it.kind == "fn":
            key = "%s::%s" % (rel, qual)
            if it.body_open < 0:
                return
            sha = hashlib.sha256(text.encode()).hexdigest()
            t = strip_inner_use(text, c)
            t = rewrite_R4(t, c)
            t = rewrite_R3(t, c)
            t = rewrite_R3c(t, c)
            con = self.contracts.get(key)
            if con is not None:
                self.used_contracts.add(key)
            broken = None
            try:
                out = splice(t, con, key, c)
            except Undecided as e:
                # a lost anchor concerns only the checks whose cone contains this function
                broken = str(e)
                out = t
            # fidelity self-check: strip what was added, undo the marked rewrites, compare tokens
            back = restore_rewrites(strip_inserts(out))
            want = rl.sig_texts(_use_stmt_re.sub("", text))
            got = rl.sig_texts(back)
            if want != got:
                raise Undecided("%s: fidelity self-check failed" % key)
            self.functions[key] = dict(file=rel, qual=qual, name=it.name, impl=impl.self_type if impl else None, sha256=sha,
                                       contract=con, src_text=text, broken=broken)
            self.order.append(("fn", key, ("    " if impl else "") + out))
            return
        raise Undecided("%s: unhandled item kind %s" % (rel, it.kind))

    def _strip_field_vis_and_docs(self, text, rel, name):
        # R1 on fields / variants: drop doc comments, pub on fields, cfg-gated variants listed in config
        dv = self.cfg.get("drop_variants", {}).get(name, [])
        toks = rl.lex(text)
        out = []
        i = 0
        sigt = rl.sig(toks)
        # remove `#[cfg(...)] Variant(...)` for listed variants
        for v in dv:
            m = re.search(r"#\[cfg\([^\]]*\)\]\s*(?:///[^\n]*\n\s*)*" + v + r"\b\s*(\([^)]*\))?\s*,", text)
            m2 = re.search(r"(?:///[^\n]*\n\s*)*#\[cfg\([^\]]*\)\]\s*" + v + r"\b\s*(\([^)]*\))?\s*,", text)
            mm = m or m2
            if not mm:
                raise Undecided("%s: variant %s::%s not found" % (rel, name, v))
            text = text[:mm.start()] + text[mm.end():]
            self.counts["R6.drop_variant"] = self.counts.get("R6.drop_variant", 0) + 1
        text = re.sub(r"(?m)^\s*///[^\n]*\n", "", text)
        text = re.sub(r"\bpub(\([a-z]+\))?\s+", "", text)
        return text

    # ------------------------------------------------------------------------------------------
    def render(self, keep_fns=None, lib_items=None, canary=False, delegated=()):
        """keep_fns: set of function keys to include (None = all).  lib_items: [(name, kind, text, file)].
        canary=True: every exec body and every lemma body starts with `assert(false)` (vacuity probe: each
        must then FAIL; one that passes has an unsatisfiable precondition).
        Returns (text, spans) with spans = [(first_line, last_line, name, kind)]."""
        pieces = []  # (text, name or None, kind)

        def add(text, name=None, kind=None):
            pieces.append((text, name, kind))

        add("#![allow(unused, non_snake_case, non_camel_case_types)]\nuse vstd::prelude::*;\nuse core::cmp::Ordering;\nverus! {\n")
        for (n, k, t, f) in (lib_items or []):
            if canary and "by (compute" in t:
                # requires-free computation lemmas: nothing to probe, and re-running the computation would double the cost
                t = "#[verifier::external_body] /* canary: skipped */\n" + t
            elif canary and k in ("proof", "exec"):
                t = re.sub(r"(?m)^\{[ \t]*\n((?:[ \t]*(?:hide|reveal)\([^\n]*\n)*)", lambda m: "{\n" + m.group(1) + "    assert(false); // canary\n", t, count=1)
            add(t + "\n", n, k)
        impl_open = None
        impl_has = False
        for ch in self.order:
            if ch[0] == "impl_open":
                impl_open, impl_has = ch[1], False
                continue
            if ch[0] == "impl_close":
                if impl_has:
                    add("}\n")
                impl_open = None
                continue
            if ch[0] == "fn":
                key, text = ch[1], ch[2]
                if keep_fns is not None and key not in keep_fns:
                    continue
                if key in delegated:
                    # modular verification: this body is out of the property's scope; its contract is assumed here
                    # and discharged by the property that owns it (named in properties.json)
                    text = _delegate_body(text, self.functions[key])
                elif canary:
                    text = _canary_body(text, self.functions[key])
                if impl_open is not None and not impl_has:
                    add(impl_open + "\n")
                    impl_has = True
                add(text + "\n", self.functions[key]["qual"], "exec")
            elif ch[0] == "const":
                if impl_open is not None and not impl_has:
                    add(impl_open + "\n")
                    impl_has = True
                add(ch[1] + "\n")
            else:
                add(ch[1] + "\n")
        add("} // verus!\nfn main() {}\n")
        out, spans, line = [], [], 1
        for text, name, kind in pieces:
            nl = text.count("\n")
            if name is not None:
                spans.append((line, line + nl, name, kind))
            out.append(text)
            out.append("\n")
            line += nl + 1
        return "".join(out), spans


def _delegate_body(text, info):
    con = info["contract"]
    if con is not None and con.external_body:
        return text
    its = rl.parse_items(strip_inserts_keep_len(text))
    it = its[0]
    pad = re.match(r"[ \t]*", text).group(0)
    return pad + INS_L + "#[verifier::external_body] /* delegated */ " + INS_R + text.lstrip()[:0] + text[len(pad):it.body_open] + "{ unimplemented!() }" + text[it.body_close + 1:]


def _canary_body(text, info):
    """insert `assert(false)` at the start of the (real) body, after any `open` ghost text"""
    con = info["contract"]
    if con is not None and con.external_body:
        return text
    its = rl.parse_items(strip_inserts_keep_len(text))
    it = its[0]
    pos = it.body_open + 1
    if con is not None and con.opens.strip():
        # the open block is the first insert after the brace
        j = text.find(INS_R, pos)
        if j > 0 and text[pos:pos + len(INS_L)] == INS_L:
            pos = j + len(INS_R)
    return text[:pos] + INS_L + " proof { assert(false); } " + INS_R + text[pos:]


def strip_inserts_keep_len(text):
    """blank out inserted regions (same length) so that offsets stay valid"""
    out = list(text)
    i = 0
    while True:
        j = text.find(INS_L, i)
        if j < 0:
            break
        k = text.find(INS_R, j)
        k2 = k + len(INS_R)
        for q in range(j, k2):
            if out[q] != "\n":
                out[q] = " "
        i = k2
    return "".join(out)


if __name__ == "__main__":
    ex = Extraction(sys.argv[1] if len(sys.argv) > 1 else "/repo")
    sys.stdout.write(ex.render()[0])
    sys.stderr.write(json.dumps(ex.counts, indent=1) + "\n")


# ----------------------------------------------------------------------------------------------
# cones: closure of "mentions" (identifier occurrence) over extracted functions and library lemmas
# ----------------------------------------------------------------------------------------------

def _idents(text):
    return {t.text for t in rl.lex(text) if t.kind == rl.IDENT}


class Library:
    def __init__(self):
        import glob
        self.items = []  # (name, kind, text, file)
        for f in sorted(glob.glob(os.path.join(VERIF, "spec", "*.rs"))) + sorted(glob.glob(os.path.join(VERIF, "lemmas", "*.rs"))):
            for (n, k, t) in split_library(f):
                self.items.append((n, k, t, os.path.relpath(f, VERIF)))
        self.by_name = {}
        for it in self.items:
            self.by_name.setdefault(it[0], []).append(it)
        self.idents = {id(it): _idents(it[2]) for it in self.items}


def _count_args(st, i):
    """st[i] is '(' ; number of top-level arguments"""
    k = rl.match_close(st, i)
    if k == i + 1:
        return 0
    depth, n = 0, 1
    for t in st[i + 1:k]:
        if t.text in rl.OPEN:
            depth += 1
        elif t.text in rl.CLOSE:
            depth -= 1
        elif t.text == "," and depth == 0:
            n += 1
    if st[k - 1].text == ",":
        n -= 1
    return n


def fn_arity(text):
    """(number of non-self parameters) of the function whose text starts at `fn`"""
    st = rl.sig(rl.lex(strip_inserts(text)))
    for i, t in enumerate(st):
        if t.text == "fn":
            j = i + 2
            while st[j].text != "(":
                j += 1
            n = _count_args(st, j)
            k = j + 1
            first = [x.text for x in st[k:k + 3]]
            if "self" in first[:3]:
                n -= 1
            return n
    return -1


def _fn_mentions(text, own_type, fn_index):
    """function keys mentioned by `text`: `T::name` / `Self::name` -> that impl's function, `self.name(..)` -> the
    own impl's method when it has one, `x.name(..)` -> every method of that name and arity, bare `name(` -> the
    free function.  Over-approximate, never under-approximate."""
    st = rl.sig(rl.lex(text))
    out = set()
    for i, t in enumerate(st):
        if t.kind != rl.IDENT or t.text not in fn_index:
            continue
        prev = st[i - 1].text if i > 0 else ""
        prev2 = st[i - 2].text if i > 1 else ""
        nxt = st[i + 1].text if i + 1 < len(st) else ""
        cands = fn_index[t.text]
        if prev == ":" and prev2 == ":":
            ty = st[i - 3].text if i > 2 else ""
            if ty == "Self":
                ty = own_type
            out |= {k for (k, impl, ar) in cands if impl == ty}
        elif prev == "." and nxt == "(":
            n = _count_args(st, i + 1)
            ms = {k for (k, impl, ar) in cands if impl is not None and ar == n}
            if prev2 == "self" and (i < 3 or st[i - 3].text != ".") and any(impl == own_type for (k, impl, ar) in cands):
                ms = {k for (k, impl, ar) in cands if impl == own_type}
            out |= ms
        elif nxt == "(" and prev != "fn":
            out |= {k for (k, impl, ar) in cands if impl is None}
    return out


def _fn_mentions_any_arity(text, own_type, fn_index):
    """like _fn_mentions but ignoring arity (fn_index entries carry arity -1)"""
    st = rl.sig(rl.lex(text))
    out = set()
    for i, t in enumerate(st):
        if t.kind != rl.IDENT or t.text not in fn_index:
            continue
        prev = st[i - 1].text if i > 0 else ""
        prev2 = st[i - 2].text if i > 1 else ""
        nxt = st[i + 1].text if i + 1 < len(st) else ""
        cands = fn_index[t.text]
        if prev == ":" and prev2 == ":":
            ty = st[i - 3].text if i > 2 else ""
            if ty == "Self":
                ty = own_type
            out |= {k for (k, impl, ar) in cands if impl == ty}
        elif prev == "." and nxt == "(":
            out |= {k for (k, impl, ar) in cands if impl is not None}
        elif nxt == "(" and prev != "fn":
            out |= {k for (k, impl, ar) in cands if impl is None}
    return out


def cone(ex, lib, root_fns, root_lemmas=(), stop_at=()):
    """returns (set of function keys, list of library items in file order)"""
    fn_index = {}
    fn_text = {}
    for ch in ex.order:
        if ch[0] == "fn":
            fn_text[ch[1]] = ch[2]
            fn_index.setdefault(ex.functions[ch[1]]["name"], []).append((ch[1], ex.functions[ch[1]]["impl"], fn_arity(ch[2])))
    keep_fn, keep_lib = set(), set()
    work = []
    for r in root_fns:
        if r not in fn_text:
            raise Undecided("root function %s is not in the extraction (lost anchor)" % r)
        work.append(("fn", r))
    for l in root_lemmas:
        if l not in lib.by_name:
            raise Undecided("root lemma %s not found" % l)
        work.append(("lib", l))
    # every non-proof library item is always included (definitions are cheap); proof items on demand
    for it in lib.items:
        if it[1] not in ("proof", "exec"):
            keep_lib.add(id(it))
            work.append(("text", it[2], None))
    while work:
        w = work.pop()
        if w[0] == "fn":
            if w[1] in keep_fn:
                continue
            keep_fn.add(w[1])
            text, own = fn_text[w[1]], ex.functions[w[1]]["impl"]
            if w[1] in stop_at:
                # delegated: only the signature and contract are used, not the body
                con = ex.functions[w[1]]["contract"]
                text = (con.requires + con.ensures) if con is not None else ""
        elif w[0] == "lib":
            new = [it for it in lib.by_name[w[1]] if id(it) not in keep_lib]
            if not new:
                continue
            for it in new:
                keep_lib.add(id(it))
            text, own = "\n".join(it[2] for it in new), None
        else:
            text, own = w[1], w[2]
        for k in _fn_mentions(text, own, fn_index):
            if k not in keep_fn:
                work.append(("fn", k))
        for name in _idents(text):
            if name in lib.by_name and any(id(it) not in keep_lib for it in lib.by_name[name]):
                work.append(("lib", name))
    return keep_fn, [it for it in lib.items if id(it) in keep_lib]
