"""Mechanical extraction of the real tz-rs functions into one Verus file.

See DESIGN.md section 2.1.  Everything copied from /repo/src is token-for-token the source text,
except for the rewrite rules R1..R12, each of which is counted and reported.  Everything that is
*added* (contracts, loop invariants, ghost blocks) is wrapped in /*@<*/ ... /*@>*/ markers so that
the fidelity self-check can strip it again and compare with the source.
"""
import base64
import hashlib
import json
import os
import re
import sys

sys.path.insert(0, os.path.dirname(os.path.abspath(__file__)))
import rustlex as rl

VERIF = os.path.dirname(os.path.dirname(os.path.abspath(__file__)))

INS_L, INS_R = "/*@<*/", "/*@>*/"


class Undecided(Exception):
    """extraction could not be carried out mechanically -> exit 2, never an alarm"""


# ----------------------------------------------------------------------------------------------
# overlay (.vc) parsing
# ----------------------------------------------------------------------------------------------

class Contract:
    def __init__(self, key, path, line):
        self.key = key
        self.where = "%s:%d" % (path, line)
        self.requires = ""
        self.ensures = ""
        self.decreases = ""
        self.ret = "r"
        self.loops = {}  # ordinal -> text
        self.inserts = []  # (mode, regex, occurrence, text)
        self.attrs = []
        self.external_body = False
        self.backed_by = ""
        self.no_ret_name = False
        self.opens = ""  # text inserted at the very start of the body


_dir_re = re.compile(r"^(fn|trait|impl|items|requires|ensures|decreases|ret|loop|before|after|inline|attr|body|backed_by|open)\b(.*)$")


_slice_open = re.compile(r"^\s*@\[([A-Z0-9, ]+)\]\{\s*$")
_slice_line = re.compile(r"^(\s*)@\[([A-Z0-9, ]+)\] ?(.*)$")


def parse_overlay(path, prop=None):
    """prop: the property whose check is being generated.  Overlay lines `@[C05,C06] text` and regions `@[C05]{` .. `@}`
    belong to the named properties only (property-sliced contracts: a function shared by several properties carries
    each property's clauses and proof steps separately, so that a failed obligation is attributed to the right one);
    with prop=None everything is included."""
    out = {}
    cur = None
    field = None
    with open(path) as f:
        raw = f.read().split("\n")
    lines, region = [], None
    for line in raw:
        m = _slice_open.match(line)
        if m:
            region = {x.strip() for x in m.group(1).split(",")}
            lines.append("")
            continue
        if region is not None and line.strip() == "@}":
            region = None
            lines.append("")
            continue
        if region is not None and prop is not None and prop not in region:
            lines.append("")
            continue
        m = _slice_line.match(line)
        if m:
            tags = {x.strip() for x in m.group(2).split(",")}
            lines.append(m.group(1) + m.group(3) if (prop is None or prop in tags) else "")
            continue
        lines.append(line)
    for ln, line in enumerate(lines, 1):
        if line.startswith("//") or (not line.strip() and field is None):
            continue
        if line[:1] not in (" ", "\t", "") and _dir_re.match(line):
            m = _dir_re.match(line)
            d, rest = m.group(1), m.group(2).strip()
            if d in ("fn", "trait", "impl"):
                # `trait <file>::<Name>` / `impl <file>::<header>`: ghost items (spec fns) added to a kept trait / trait impl
                key = rest if d == "fn" else d + " " + rest
                cur = Contract(key, os.path.relpath(path, VERIF), ln)
                if key in out:
                    raise Undecided("duplicate contract for %s" % key)
                out[key] = cur
                field = None
                continue
            if cur is None:
                raise Undecided("%s:%d: directive outside fn" % (path, ln))
            rest = rest.rstrip(":").strip() if d not in ("before", "after", "inline") else rest
            if d == "items":
                d = "open"
            if d in ("requires", "ensures", "decreases", "open"):
                field = (d,)
                if rest:
                    _append(cur, field, rest)
            elif d == "ret":
                cur.ret = rest.lstrip(":").strip()
                if cur.ret == "-":
                    cur.no_ret_name = True
                field = None
            elif d == "loop":
                field = ("loop", int(rest))
                cur.loops[int(rest)] = ""
            elif d in ("before", "after"):
                m2 = re.match(r"^/(.*)/\s*(?:#(\d+))?\s*:?\s*$", rest)
                if not m2:
                    raise Undecided("%s:%d: bad anchor %r" % (path, ln, rest))
                cur.inserts.append([d, m2.group(1), int(m2.group(2) or 1), ""])
                field = ("ins", len(cur.inserts) - 1)
            elif d == "inline":
                # `inline /regex/ #k: text` -- text inserted immediately after the k-th match (same line)
                m2 = re.match(r"^/(.*)/\s*(?:#(\d+))?\s*:(.*)$", rest)
                if not m2:
                    raise Undecided("%s:%d: bad inline anchor %r" % (path, ln, rest))
                cur.inserts.append(["inline", m2.group(1), int(m2.group(2) or 1), m2.group(3).strip()])
                field = None
            elif d == "attr":
                cur.attrs.append(rest.lstrip(":").strip())
                field = None
            elif d == "body":
                if rest.lstrip(":").strip() != "external":
                    raise Undecided("%s:%d: unknown body directive" % (path, ln))
                cur.external_body = True
                field = None
            elif d == "backed_by":
                cur.backed_by = rest.lstrip(":").strip()
                field = None
            continue
        if field is None:
            if line.strip():
                raise Undecided("%s:%d: text outside a directive: %r" % (path, ln, line))
            continue
        _append(cur, field, line)
    return out


def _append(c, field, text):
    if field[0] == "requires":
        c.requires += text + "\n"
    elif field[0] == "ensures":
        c.ensures += text + "\n"
    elif field[0] == "decreases":
        c.decreases += text + "\n"
    elif field[0] == "open":
        c.opens += text + "\n"
    elif field[0] == "loop":
        c.loops[field[1]] += text + "\n"
    elif field[0] == "ins":
        c.inserts[field[1]][3] += text + "\n"


# ----------------------------------------------------------------------------------------------
# library files (spec/*.rs, lemmas/*.rs): split into column-0 items
# ----------------------------------------------------------------------------------------------

_lib_head = re.compile(r"^(?:#\[[^\n]*\]\s*\n)*(?:pub\s+)?(?:(?:open|closed|uninterp|broadcast|const)\s+)*(?:spec|proof|exec)?\s*(?:const\s+)?(fn|const|struct|enum|broadcast\s+use|use)\b")


def split_library(path):
    """returns [(name, kind, text)].  Convention for library files: an item starts at a column-0 line
    (attributes included) and ends at the next line that starts with '}' or ';' at column 0, or on
    the same line if that line ends with ';' and opens no brace."""
    src = open(path).read()
    lines = src.split("\n")
    items = []
    i = 0
    while i < len(lines):
        line = lines[i]
        if not line.strip() or line.startswith("//"):
            i += 1
            continue
        if line[0] in " \t":
            raise Undecided("%s:%d: unexpected indented line outside an item" % (path, i + 1))
        j = i
        while lines[j].startswith("#["):
            j += 1
        k = j
        if not (lines[j].rstrip().endswith(";") and "{" not in lines[j]):
            k = j + 1
            while k < len(lines) and not (lines[k].startswith("}") or lines[k].startswith(";")):
                k += 1
            if k >= len(lines):
                raise Undecided("%s:%d: unterminated item" % (path, i + 1))
        text = "\n".join(lines[i:k + 1])
        head = lines[j]
        m = re.search(r"\bfn\s+(\w+)", head)
        ma = re.search(r"assume_specification(?:<[^>]*>)?\s*\[\s*(.+?)\s*\]\s*\(", head)
        if ma:
            kind, name = "assume_specification", ma.group(1)
        elif m:
            kind = "proof" if re.search(r"\bproof\s+fn\b", head) else ("spec" if re.search(r"\bspec\b", head) else "exec")
            name = m.group(1)
        else:
            m2 = re.match(r"(?:pub\s+)?(?:spec\s+)?(const|struct|enum|use|broadcast use)\s+(\w+)?", head)
            kind = m2.group(1) if m2 else "other"
            name = (m2.group(2) if m2 and m2.group(2) else "item%d" % i)
        items.append((name, kind, text))
        i = k + 1
    return items


# ----------------------------------------------------------------------------------------------
# R2: crate-local macro expansion (single arm, $x:expr / $x:ty parameters)
# ----------------------------------------------------------------------------------------------

def collect_macros(src, path):
    macros = {}
    for it in rl.parse_items(src):
        if it.kind != "macro_rules":
            continue
        body = src[it.body[0]:it.body[1]]  # { (params) => { ... }; }
        st = rl.sig(rl.lex(body))
        # st[0] = '{', st[1] = '(' ...
        if st[1].text != "(":
            raise Undecided("%s: macro %s: unsupported shape" % (path, it.name))
        k = rl.match_close(st, 1)
        params_txt = body[st[1].end:st[k].pos]
        params = []
        for p in [x.strip() for x in params_txt.split(",") if x.strip()]:
            m = re.match(r"^\$(\w+):(expr|ty|ident)$", p)
            if not m:
                raise Undecided("%s: macro %s: unsupported parameter %r" % (path, it.name, p))
            params.append(m.group(1))
        if st[k + 1].text != "=" or st[k + 2].text != ">" or st[k + 3].text != "{":
            raise Undecided("%s: macro %s: unsupported shape" % (path, it.name))
        e = rl.match_close(st, k + 3)
        # single arm only
        rest = [t.text for t in st[e + 1:]]
        if rest not in (["}"], [";", "}"]):
            raise Undecided("%s: macro %s has more than one arm" % (path, it.name))
        inner = body[st[k + 3].end:st[e].pos]
        macros[it.name] = (params, inner)
    return macros


def expand_macros(src, macros, counts):
    """textual expansion of `name!(args)` for crate-local macros, repeated until none is left."""
    for _ in range(8):
        toks = rl.sig(rl.lex(src))
        hit = None
        for i, t in enumerate(toks):
            if t.kind == rl.IDENT and t.text in macros and i + 2 < len(toks) and toks[i + 1].text == "!" and toks[i + 2].text == "(" and (i == 0 or toks[i - 1].text != "macro_rules"):
                hit = i
                break
        if hit is None:
            return src
        i = hit
        k = rl.match_close(toks, i + 2)
        args_txt = src[toks[i + 2].end:toks[k].pos]
        # split on top level commas
        at = rl.sig(rl.lex(args_txt))
        args, depth, start = [], 0, 0
        for a in at:
            if a.text in rl.OPEN:
                depth += 1
            elif a.text in rl.CLOSE:
                depth -= 1
            elif a.text == "," and depth == 0:
                args.append(args_txt[start:a.pos].strip())
                start = a.end
        if args_txt[start:].strip():
            args.append(args_txt[start:].strip())
        params, inner = macros[toks[i].text]
        if len(args) != len(params):
            raise Undecided("macro %s: arity mismatch" % toks[i].text)
        body = inner
        for p, a in sorted(zip(params, args), key=lambda x: -len(x[0])):
            body = re.sub(r"\$" + p + r"\b", lambda m: a, body)
        end = toks[k].end
        # item-position invocation `name!();` -> drop the ';'
        if k + 1 < len(toks) and toks[k + 1].text == ";" and inner.lstrip().startswith(("///", "#[", "pub", "fn", "const")):
            end = toks[k + 1].end
        counts["R2"] = counts.get("R2", 0) + 1
        src = src[:toks[i].pos] + body + src[end:]
    raise Undecided("macro expansion did not terminate")


# ----------------------------------------------------------------------------------------------
# R3 / R4 rewrites (inside function bodies)
# ----------------------------------------------------------------------------------------------

def _rw(kind, orig, new):
    return "/*@%s[*/%s/*@]%s:%s*/" % (kind, new, kind, base64.b64encode(orig.encode()).decode())


_rw_re = re.compile(r"/\*@(R\w+)\[\*/(.*?)/\*@\]\1:([A-Za-z0-9+/=]*)\*/", re.S)


def restore_rewrites(text):
    return _rw_re.sub(lambda m: base64.b64decode(m.group(3)).decode(), text)


def strip_inserts(text):
    out, i = [], 0
    while True:
        j = text.find(INS_L, i)
        if j < 0:
            out.append(text[i:])
            break
        out.append(text[i:j])
        k = text.find(INS_R, j)
        if k < 0:
            raise Undecided("unbalanced insert marker")
        i = k + len(INS_R)
    return "".join(out)


def _arm_end(toks, i):
    """toks[i] is the first token of a match-arm expression; returns (end_index_exclusive, next_index)"""
    if toks[i].text == "{":
        k = rl.match_close(toks, i)
        nxt = k + 1
        if nxt < len(toks) and toks[nxt].text == ",":
            nxt += 1
        return k + 1, nxt
    j = i
    while j < len(toks):
        t = toks[j].text
        if t in rl.OPEN:
            j = rl.match_close(toks, j)
        elif t == ",":
            return j, j + 1
        elif t == "}":
            return j, j
        j += 1
    raise Undecided("cannot find end of match arm")


def rewrite_R3(text, counts):
    """slice patterns -> len()/index form.  Two shapes only (anything else: unchanged, Verus will reject
    it and the run ends UNDECIDED)."""
    changed = True
    while changed:
        changed = False
        toks = rl.sig(rl.lex(restore_safe(text)))
        base = text
        toks = rl.sig(rl.lex(base))
        for i, t in enumerate(toks):
            # R3a: match S { [] => A, [.., x] => B }
            if t.kind == rl.IDENT and t.text == "match":
                j = i + 1
                while j < len(toks) and toks[j].text != "{":
                    if toks[j].text in ("(", "["):
                        j = rl.match_close(toks, j)
                    j += 1
                if j + 4 >= len(toks):
                    continue
                tx = [x.text for x in toks[j + 1:j + 5]]
                if tx != ["[", "]", "=", ">"]:
                    continue
                S = base[toks[i + 1].pos:toks[j - 1].end]
                mclose = rl.match_close(toks, j)
                a0 = j + 5
                a_end, nxt = _arm_end(toks, a0)
                A = base[toks[a0].pos:toks[a_end - 1].end]
                pat = [x.text for x in toks[nxt:nxt + 8]]
                if pat[:4] != ["[", ".", ".", ","] or pat[5:8] != ["]", "=", ">"]:
                    continue
                x = pat[4]
                b0 = nxt + 8
                b_end, nxt2 = _arm_end(toks, b0)
                B = base[toks[b0].pos:toks[b_end - 1].end]
                if nxt2 != mclose:
                    continue
                new = "if %s.len() == 0 { %s } else { let %s = &%s[%s.len() - 1]; %s }" % (S, A, x, S, S, B)
                orig = base[t.pos:toks[mclose].end]
                text = base[:t.pos] + _rw("R3", orig, new) + base[toks[mclose].end:]
                counts["R3"] = counts.get("R3", 0) + 1
                changed = True
                break
            # R3b: if let (P, [.., x]) = (E1, E2) { BODY }   (no else)
            if t.kind == rl.IDENT and t.text == "if" and i + 2 < len(toks) and toks[i + 1].text == "let" and toks[i + 2].text == "(":
                pc = rl.match_close(toks, i + 2)
                inner = toks[i + 3:pc]
                # split pattern tuple on top-level comma
                depth, cut = 0, None
                for q, u in enumerate(inner):
                    if u.text in rl.OPEN:
                        depth += 1
                    elif u.text in rl.CLOSE:
                        depth -= 1
                    elif u.text == "," and depth == 0:
                        cut = q
                        break
                if cut is None:
                    continue
                P = base[inner[0].pos:inner[cut - 1].end]
                sp = [u.text for u in inner[cut + 1:]]
                if len(sp) != 6 or sp[:4] != ["[", ".", ".", ","] or sp[5] != "]":
                    continue
                x = sp[4]
                if toks[pc + 1].text != "=" or toks[pc + 2].text != "(":
                    continue
                ec = rl.match_close(toks, pc + 2)
                einner = toks[pc + 3:ec]
                depth, cut = 0, None
                for q, u in enumerate(einner):
                    if u.text in rl.OPEN:
                        depth += 1
                    elif u.text in rl.CLOSE:
                        depth -= 1
                    elif u.text == "," and depth == 0:
                        cut = q
                        break
                if cut is None:
                    continue
                E1 = base[einner[0].pos:einner[cut - 1].end]
                E2 = base[einner[cut + 1].pos:einner[-1].end]
                if toks[ec + 1].text != "{":
                    continue
                bc = rl.match_close(toks, ec + 1)
                if bc + 1 < len(toks) and toks[bc + 1].text == "else":
                    continue
                BODY = base[toks[ec + 1].end:toks[bc].pos]
                new = "if let %s = %s { if %s.len() != 0 { let %s = &%s[%s.len() - 1]; %s } }" % (P, E1, E2, x, E2, E2, BODY)
                orig = base[t.pos:toks[bc].end]
                text = base[:t.pos] + _rw("R3", orig, new) + base[toks[bc].end:]
                counts["R3"] = counts.get("R3", 0) + 1
                changed = True
                break
    return text


def rewrite_R3d(text, counts):
    """`match *S { [P] => A, _ => B }` -> `if S.len() == 1 { match S[0] { P => A, _ => B } } else { B }` (single-element slice pattern;
    B must be a plain expression without side effects: it is duplicated)"""
    toks = rl.sig(rl.lex(text))
    for i, t in enumerate(toks):
        if t.text != "match" or toks[i + 1].text != "*":
            continue
        j = i + 2
        while j < len(toks) and toks[j].text != "{":
            if toks[j].text in ("(", "["):
                j = rl.match_close(toks, j)
            j += 1
        if toks[j + 1].text != "[":
            continue
        pc = rl.match_close(toks, j + 1)
        if [x.text for x in toks[pc + 1:pc + 3]] != ["=", ">"]:
            continue
        mclose = rl.match_close(toks, j)
        S = text[toks[i + 2].pos:toks[j - 1].end]
        P = text[toks[j + 2].pos:toks[pc - 1].end]
        if ".." in P or any(x.text == "," and d == 0 for d, x in _depths(toks[j + 2:pc])):
            continue
        a0 = pc + 3
        a_end, nxt = _arm_end(toks, a0)
        A = text[toks[a0].pos:toks[a_end - 1].end]
        if [x.text for x in toks[nxt:nxt + 3]] != ["_", "=", ">"]:
            continue
        b0 = nxt + 3
        b_end, nxt2 = _arm_end(toks, b0)
        B = text[toks[b0].pos:toks[b_end - 1].end]
        if nxt2 != mclose or not re.match(r"^[A-Za-z_][A-Za-z0-9_:]*$", B):
            continue
        new = "if %s.len() == 1 { match %s[0] { %s => %s, _ => %s } } else { %s }" % (S, S, P, A, B, B)
        orig = text[t.pos:toks[mclose].end]
        counts["R3"] = counts.get("R3", 0) + 1
        return text[:t.pos] + _rw("R3", orig, new) + text[toks[mclose].end:]
    return text


def rewrite_R3e(text, counts):
    """`match E { [L1] => A1, [L2] => A2, .., _ => B }` with literal Li ->
    `{ let matched_slice = E; if matched_slice.len() == 1 && matched_slice[0] == L1 { A1 } else if .. else { B } }`"""
    toks = rl.sig(rl.lex(text))
    for i, t in enumerate(toks):
        if t.text != "match":
            continue
        j = i + 1
        while j < len(toks) and toks[j].text != "{":
            if toks[j].text in ("(", "["):
                j = rl.match_close(toks, j)
            j += 1
        if j + 1 >= len(toks) or toks[j + 1].text != "[":
            continue
        mclose = rl.match_close(toks, j)
        E = text[toks[i + 1].pos:toks[j - 1].end]
        arms, k, ok = [], j + 1, True
        while k < mclose:
            if toks[k].text == "[":
                pc = rl.match_close(toks, k)
                if pc != k + 2 or toks[k + 1].kind not in (rl.NUM,) or [x.text for x in toks[pc + 1:pc + 3]] != ["=", ">"]:
                    ok = False
                    break
                a_end, nxt = _arm_end(toks, pc + 3)
                arms.append((toks[k + 1].text, text[toks[pc + 3].pos:toks[a_end - 1].end]))
                k = nxt
            elif toks[k].text == "_" and [x.text for x in toks[k + 1:k + 3]] == ["=", ">"]:
                a_end, nxt = _arm_end(toks, k + 3)
                arms.append((None, text[toks[k + 3].pos:toks[a_end - 1].end]))
                k = nxt
                if k != mclose:
                    ok = False
                break
            else:
                ok = False
                break
        if not ok or len(arms) < 3 or arms[-1][0] is not None:
            continue
        new = "{ let matched_slice = %s; " % E
        for lit, arm in arms[:-1]:
            new += "if matched_slice.len() == 1 && matched_slice[0] == %s { %s } else " % (lit, arm)
        new += "{ %s } }" % arms[-1][1]
        orig = text[t.pos:toks[mclose].end]
        counts["R3"] = counts.get("R3", 0) + 1
        return text[:t.pos] + _rw("R3", orig, new) + text[toks[mclose].end:]
    return text


def _depths(toks):
    d = 0
    for x in toks:
        if x.text in rl.OPEN:
            d += 1
            yield d - 1, x
        elif x.text in rl.CLOSE:
            d -= 1
            yield d, x
        else:
            yield d, x


def restore_safe(text):
    return text


_r4_re = re.compile(r"(?m)^(\s*)([A-Za-z_][A-Za-z0-9_]*) %= ([^;\n]+);")


def rewrite_R4(text, counts):
    def f(m):
        counts["R4"] = counts.get("R4", 0) + 1
        return m.group(1) + _rw("R4", "%s %%= %s;" % (m.group(2), m.group(3)), "%s = %s %% %s;" % (m.group(2), m.group(2), m.group(3)))
    return _r4_re.sub(f, text)


_r3c_re = re.compile(r"\bOk\(&([a-z_][a-z0-9_]*)\) => \1,")


def rewrite_R3c(text, counts):
    """reference pattern `Ok(&x) => x,` -> `Ok(x) => *x,` (Verus: "ref patterns" unsupported; T: Copy)"""
    def f(m):
        counts["R3"] = counts.get("R3", 0) + 1
        return _rw("R3", m.group(0), "Ok(%s) => *%s," % (m.group(1), m.group(1)))
    return _r3c_re.sub(f, text)


_use_stmt_re = re.compile(r"(?m)^[ \t]+use [^;\n]+;[ \t]*\n")


def strip_inner_use(text, counts):
    def f(m):
        counts["R1u"] = counts.get("R1u", 0) + 1
        return ""
    return _use_stmt_re.sub(f, text)



# ----------------------------------------------------------------------------------------------
# R8..R11: closures and iterator adapters (datetime/find.rs)
# ----------------------------------------------------------------------------------------------

def _find_stmt_end(toks, i):
    """index of the `;` ending the statement that starts at toks[i] (top level of its block)"""
    j = i
    while j < len(toks):
        if toks[j].text in rl.OPEN:
            j = rl.match_close(toks, j)
        elif toks[j].text == ";":
            return j
        j += 1
    raise Undecided("statement end not found")


def rewrite_R8(text, key, specs, counts):
    """lambda lifting of a closure that captures a variable mutably (Verus has no FnMut with mutable captures):
    `let mut NAME = |PARAMS| -> RET { BODY };` is removed from the function and re-emitted as a separate function
    `<fn>__NAME(CAPTURES.., PARAMS) -> RET { BODY }`; every call `NAME(args)` becomes `<fn>__NAME(captures.., args)`;
    a capture marked "deref" is passed as `&mut x` and each use of `x` in BODY becomes `(*x)`.  The capture list and the
    return type come from contracts/extract.json (rustc re-checks them: a wrong list does not compile -> UNDECIDED).
    Returns (new_text, [lifted function texts])."""
    lifted = []
    for sp in specs:
        name = sp["name"]
        toks = rl.sig(rl.lex(text))
        at = None
        for i, t in enumerate(toks):
            if t.text == "let" and toks[i + 1].text == "mut" and toks[i + 2].text == name and toks[i + 3].text == "=" and toks[i + 4].text == "|":
                at = i
                break
        if at is None:
            raise Undecided("%s: closure %s not found (lost anchor)" % (key, name))
        j = at + 5
        while toks[j].text != "|":
            j += 1
        params = text[toks[at + 4].end:toks[j].pos].strip()
        k = j + 1
        while toks[k].text != "{":
            k += 1
        bclose = rl.match_close(toks, k)
        if toks[bclose + 1].text != ";":
            raise Undecided("%s: closure %s has an unexpected shape" % (key, name))
        body = text[toks[k].pos:toks[bclose].end]
        stmt_lo = text.rfind("\n", 0, toks[at].pos) + 1
        stmt_hi = toks[bclose + 1].end
        fname = "%s__%s" % (key.split("::")[-1], name)
        # the lifted body: mutable captures are dereferenced
        btoks = rl.sig(rl.lex(body))
        out, last = [], 0
        for t in btoks:
            for cap in sp["captures"]:
                if cap.get("deref") and t.kind == rl.IDENT and t.text == cap["name"]:
                    out.append(body[last:t.pos])
                    out.append(_rw("R8", t.text, "(*%s)" % t.text))
                    last = t.end
        out.append(body[last:])
        sig = "fn %s(%s, %s) -> %s " % (fname, ", ".join("%s: %s" % (c["name"], c["type"]) for c in sp["captures"]), params, sp["ret"])
        lifted.append(dict(name=name, fname=fname, text=_rw("R8", "", sig) + "".join(out), closure_body=body))
        removed = text[stmt_lo:stmt_hi]
        text = text[:stmt_lo] + _rw("R8", removed, "") + text[stmt_hi:]
        # calls
        call_args = ", ".join(c["pass"] for c in sp["captures"])
        toks = rl.sig(rl.lex(text))
        edits = []
        for i, t in enumerate(toks):
            if t.kind == rl.IDENT and t.text == name and toks[i + 1].text == "(" and toks[i - 1].text not in (".", "fn", "mut"):
                edits.append((t.pos, toks[i + 1].end, _rw("R8", text[t.pos:toks[i + 1].end], "%s(%s, " % (fname, call_args))))
        if not edits:
            raise Undecided("%s: closure %s is never called" % (key, name))
        for lo, hi, new in sorted(edits, reverse=True):
            text = text[:lo] + new + text[hi:]
        counts["R8"] = counts.get("R8", 0) + 1
    return text, lifted


def rewrite_R9(text, key, counts):
    """`for (I, X) in S.iter().enumerate() {B}` -> `let mut I = 0; while I < S.len() { let X = &S[I]; B I += 1; }`
    (B must not contain `continue`)."""
    while True:
        toks = rl.sig(rl.lex(text))
        hit = None
        for i, t in enumerate(toks):
            if t.text != "for" or toks[i + 1].text != "(":
                continue
            pc = rl.match_close(toks, i + 1)
            pat = [x.text for x in toks[i + 2:pc]]
            if len(pat) != 3 or pat[1] != "," or toks[pc + 1].text != "in":
                continue
            j = pc + 2
            while toks[j].text != "{":
                if toks[j].text in ("(", "["):
                    j = rl.match_close(toks, j)
                j += 1
            tail = [x.text for x in toks[j - 8:j]]
            if tail != [".", "iter", "(", ")", ".", "enumerate", "(", ")"]:
                continue
            hit = (i, pc, j, pat[0], pat[2])
            break
        if hit is None:
            return text
        i, pc, j, I, X = hit
        S = text[toks[pc + 2].pos:toks[j - 9].end]
        bc = rl.match_close(toks, j)
        if any(x.text == "continue" for x in toks[j:bc]):
            raise Undecided("%s: `continue` inside an enumerate loop (R9 does not apply)" % key)
        head = _rw("R9", text[toks[i].pos:toks[j - 1].end], "let mut %s = 0; while %s < %s.len()" % (I, I, S))
        first = _rw("R9", "", " let %s = &%s[%s];" % (X, S, I))
        last = _rw("R9", "", "%s += 1; " % I)
        text = text[:toks[i].pos] + head + text[toks[j - 1].end:toks[j].end] + first + text[toks[j].end:toks[bc].pos] + last + text[toks[bc].pos:]
        counts["R9"] = counts.get("R9", 0) + 1


def rewrite_R10(text, key, specs, counts):
    """an iterator-adapter expression / statement is replaced by a call to a helper whose contract is assumed in Verus and
    proved for the ORIGINAL expression by the named Kani harness (complete: fixed-size arrays of machine integers)."""
    for sp in specs:
        n = text.count(sp["orig"])
        if n != sp.get("count", 1):
            raise Undecided("%s: expression %r occurs %d times (lost anchor)" % (key, sp["orig"][:40], n))
        text = text.replace(sp["orig"], _rw("R10", sp["orig"], sp["new"]))
        counts["R10"] = counts.get("R10", 0) + n
    return text


def rewrite_R12(text, key, receivers, counts):
    """A-normal form for the argument of a push: the statement `X.push(E);` becomes `let pushed_value = E; X.push(pushed_value);`
    (same evaluation order: X is a plain variable; E is evaluated before the call either way) so that ghost code can name E."""
    for recv in receivers:
        while True:
            toks = rl.sig(rl.lex(text))
            hit = None
            rt = [t.text for t in rl.sig(rl.lex(recv))]
            for i in range(len(toks) - len(rt) - 1):
                if [t.text for t in toks[i:i + len(rt)]] == rt and toks[i + len(rt)].text == "(" and toks[i - 1].text in (";", "{", "}"):
                    pc = rl.match_close(toks, i + len(rt))
                    if toks[pc + 1].text != ";":
                        continue
                    arg = text[toks[i + len(rt)].end:toks[pc].pos]
                    if arg.strip() == "pushed_value":
                        continue
                    hit = (i, pc, arg)
                    break
            if hit is None:
                break
            i, pc, arg = hit
            new = "let pushed_value = %s;\n%s%s(pushed_value)" % (arg, _line_indent(text, toks[i].pos), recv)
            text = text[:toks[i].pos] + _rw("R12", text[toks[i].pos:toks[pc].end], new) + text[toks[pc].end:]
            counts["R12"] = counts.get("R12", 0) + 1
    return text


def rewrite_R11(text, key, counts):
    """`let IT = A.iter().copied().zip(B.iter().copied());` ... `for (P, &(&Q1, .., Qn)) in IT {BODY}` ->
    `let mut zip_i = 0; while zip_i < A.len() && zip_i < B.len() { let P = A[zip_i]; let zip_e = B[zip_i]; let Q1 = *zip_e.0; ..; BODY zip_i += 1; }`"""
    toks = rl.sig(rl.lex(text))
    for i, t in enumerate(toks):
        if t.text != "let" or toks[i + 2].text != "=":
            continue
        e = _find_stmt_end(toks, i)
        tx = [x.text for x in toks[i + 3:e]]
        mid = [".", "iter", "(", ")", ".", "copied", "(", ")", ".", "zip", "("]
        suf = [".", "iter", "(", ")", ".", "copied", "(", ")", ")"]
        if len(tx) != 2 + len(mid) + len(suf) or tx[1:1 + len(mid)] != mid or tx[2 + len(mid):] != suf:
            continue
        IT, A, B = toks[i + 1].text, tx[0], tx[1 + len(mid)]
        # the loop
        for q in range(e, len(toks)):
            if toks[q].text == "for" and toks[q + 1].text == "(":
                pc = rl.match_close(toks, q + 1)
                if [x.text for x in toks[pc + 1:pc + 4]] == ["in", IT, "{"]:
                    break
        else:
            raise Undecided("%s: zip iterator %s is not consumed by a for loop" % (key, IT))
        pat = toks[q + 2:pc]
        P = pat[0].text
        if pat[1].text != "," or pat[2].text != "&" or pat[3].text != "(" or pat[-1].text != ")":
            raise Undecided("%s: unexpected zip loop pattern" % key)
        comps, cur = [], []
        for x in pat[4:-1]:
            if x.text == ",":
                comps.append(cur)
                cur = []
            else:
                cur.append(x.text)
        if cur:
            comps.append(cur)
        binds = " let %s = %s[zip_i]; let zip_e = %s[zip_i];" % (P, A, B)
        for n, c in enumerate(comps):
            if len(c) == 2 and c[0] == "&":
                binds += " let %s = *zip_e.%d;" % (c[1], n)
            elif len(c) == 1:
                binds += " let %s = zip_e.%d;" % (c[0], n)
            else:
                raise Undecided("%s: unexpected zip loop pattern component" % key)
        ob = pc + 3
        bc = rl.match_close(toks, ob)
        if any(x.text == "continue" for x in toks[ob:bc]):
            raise Undecided("%s: `continue` inside the zip loop (R11 does not apply)" % key)
        s_lo = text.rfind("\n", 0, toks[i].pos) + 1
        head = _rw("R11", text[toks[q].pos:toks[ob - 1].end], "let mut zip_i = 0; while zip_i < %s.len() && zip_i < %s.len()" % (A, B))
        out = (text[:s_lo] + _rw("R11", text[s_lo:toks[e].end], "") + text[toks[e].end:toks[q].pos] + head + text[toks[ob - 1].end:toks[ob].end]
               + _rw("R11", "", binds) + text[toks[ob].end:toks[bc].pos] + _rw("R11", "", "zip_i += 1; ") + text[toks[bc].pos:])
        counts["R11"] = counts.get("R11", 0) + 1
        return out
    return text

# ----------------------------------------------------------------------------------------------
# R5: splice contracts into a function
# ----------------------------------------------------------------------------------------------

def ins(text):
    return INS_L + text + INS_R


def _indent(text, pad):
    return "".join(pad + l + "\n" if l.strip() else "\n" for l in text.rstrip("\n").split("\n"))


def splice(fn_text, c, key, counts):
    """fn_text: the (rewritten) function text starting at `const fn` / `fn`.  c: Contract or None."""
    if c is None:
        return fn_text
    its = rl.parse_items(fn_text)
    if len(its) != 1 or its[0].kind != "fn":
        raise Undecided("%s: cannot re-parse function" % key)
    it = its[0]
    edits = []  # (pos, text) insertions in fn_text coordinates
    body_lo, body_hi = it.body_open + 1, it.body_close
    toks = [t for t in rl.sig(rl.lex(fn_text)) if body_lo <= t.pos < body_hi]
    # loops
    loop_toks = [i for i, t in enumerate(toks) if t.kind == rl.IDENT and t.text in ("while", "loop", "for")]
    for n, spec in sorted(c.loops.items()):
        if n >= len(loop_toks):
            raise Undecided("%s: loop %d not found (lost anchor)" % (key, n))
        j = loop_toks[n] + 1
        while toks[j].text != "{":
            if toks[j].text in ("(", "["):
                j = _close_in(toks, j)
            j += 1
        pad = _line_indent(fn_text, toks[loop_toks[n]].pos) + "    "
        # leading `#[...]` lines of a loop specification are attributes of the loop itself (e.g. per-loop isolation)
        sl = spec.split("\n")
        attrs = []
        while sl and sl[0].strip().startswith("#["):
            attrs.append(sl.pop(0).strip())
        spec = "\n".join(sl)
        if attrs:
            edits.append((toks[loop_toks[n]].pos, ins(" ".join(attrs) + " ")))
        edits.append((toks[j].pos, ins("\n" + _indent(spec, pad) + pad[:-4])))
        counts["R5.loop"] = counts.get("R5.loop", 0) + 1
    # anchored inserts
    body = fn_text[body_lo:body_hi]
    for mode, rx, occ, text in c.inserts:
        ms = list(re.finditer(rx, body))
        if len(ms) < occ:
            raise Undecided("%s: anchor /%s/ #%d not found (lost anchor)" % (key, rx, occ))
        m = ms[occ - 1]
        if mode == "inline":
            edits.append((body_lo + m.end(), ins(" " + text + " ")))
            counts["R5.ghost"] = counts.get("R5.ghost", 0) + 1
            continue
        if mode == "before":
            p = body.rfind("\n", 0, m.start()) + 1
        else:
            p = body.find("\n", m.end())
            p = len(body) if p < 0 else p + 1
        pad = _line_indent(fn_text, body_lo + m.start())
        edits.append((body_lo + p, ins(_indent(text, pad))))
        counts["R5.ghost"] = counts.get("R5.ghost", 0) + 1
    if c.opens.strip():
        edits.append((body_lo, ins("\n" + _indent(c.opens, "        "))))
        counts["R5.ghost"] = counts.get("R5.ghost", 0) + 1
    # signature
    spec = ""
    if c.requires.strip():
        spec += "    requires\n" + _indent(c.requires, "        ")
    if c.ensures.strip():
        spec += "    ensures\n" + _indent(c.ensures, "        ")
    if c.decreases.strip():
        spec += "    decreases\n" + _indent(c.decreases, "        ")
    if it.ret_type is not None and not c.no_ret_name:
        edits.append((it.ret_type[0], ins("(%s: " % c.ret)))
        edits.append((it.ret_type[1], ins(")")))
        counts["R5.ret"] = counts.get("R5.ret", 0) + 1
    if spec:
        edits.append((it.body_open, ins("\n" + spec)))
        counts["R5.contract"] = counts.get("R5.contract", 0) + 1
    if c.external_body:
        # R7: body replaced, contract assumed here and proved by the named Kani harness
        orig = fn_text[it.body_open:it.body_close + 1]
        fn_text_new = fn_text[:it.body_open] + _rw("R7", orig, "{ unimplemented!() }") + fn_text[it.body_close + 1:]
        edits = [e for e in edits if e[0] <= it.body_open]
        counts["R7"] = counts.get("R7", 0) + 1
        fn_text = fn_text_new
    out = fn_text
    for pos, text in sorted(edits, key=lambda e: -e[0]):
        out = out[:pos] + text + out[pos:]
    pre = ""
    for a in c.attrs:
        pre += ins(a + "\n")
    if c.external_body:
        pre += ins("#[verifier::external_body]\n")
    return pre + out


def _close_in(toks, i):
    depth = 0
    for j in range(i, len(toks)):
        if toks[j].text in rl.OPEN:
            depth += 1
        elif toks[j].text in rl.CLOSE:
            depth -= 1
            if depth == 0:
                return j
    raise Undecided("unbalanced")


def _line_indent(text, pos):
    s = text.rfind("\n", 0, pos) + 1
    m = re.match(r"[ \t]*", text[s:])
    return m.group(0)


# ----------------------------------------------------------------------------------------------
# main generation
# ----------------------------------------------------------------------------------------------

DROP_ATTR = re.compile(r"^#\[(inline|allow|doc|cfg|non_exhaustive|must_use)\b")


def _is_cfg_test(it):
    return any(re.match(r"#\[cfg\(\s*test\s*\)\]", a[2]) for a in it.attrs)


def _kept_attrs(it):
    return [a[2] for a in it.attrs if not DROP_ATTR.match(a[2])]


class Extraction:
    def __init__(self, repo, cfg_path=None, prop=None):
        self.repo = repo
        self.prop = prop
        self.cfg = json.load(open(cfg_path or os.path.join(VERIF, "contracts", "extract.json")))
        self.counts = {}
        self.contracts = {}
        for f in sorted(os.listdir(os.path.join(VERIF, "contracts"))):
            if f.endswith(".vc"):
                self.contracts.update(parse_overlay(os.path.join(VERIF, "contracts", f), prop))
        self.functions = {}  # key -> dict(text, src_sha, file, type, name, has_contract)
        self.types = []  # [(file, text)]
        self.order = []  # output order of chunks: ("type"/"const"/"fn"/"impl_open"/"impl_close", payload)
        self.dropped = []
        self.lifted_after = {}
        self.trait_methods = {}
        self.used_contracts = set()
        self._extract()

    def _extract(self):
        macros = {}
        srcs = {}
        for rel in self.cfg["files"]:
            p = os.path.join(self.repo, "src", rel)
            if not os.path.exists(p):
                raise Undecided("source file %s is missing" % rel)
            srcs[rel] = open(p).read()
            macros.update(collect_macros(srcs[rel], rel))
        self.file_sha = {rel: hashlib.sha256(s.encode()).hexdigest() for rel, s in srcs.items()}
        drop = self.cfg.get("drop", {})
        for rel in self.cfg["files"]:
            src = expand_macros(srcs[rel], macros, self.counts)
            self.order.append(("comment", "// ======== extracted from src/%s ========" % rel))
            for it in rl.parse_items(src):
                self._item(rel, src, it, None, drop.get(rel, []))
        unused = set(self.contracts) - self.used_contracts
        if unused:
            raise Undecided("contracts name functions that no longer exist (lost anchor): %s" % ", ".join(sorted(unused)))

    def _item(self, rel, src, it, impl, drop):
        c = self.counts
        if _is_cfg_test(it):
            c["R6.cfg_test"] = c.get("R6.cfg_test", 0) + 1
            return
        qual = (impl.self_type + "::" if impl else "") + it.name
        keyq = qual
        if impl is not None and impl.trait_impl:
            # key: the full impl header; qual: the name Verus reports (Self type :: method)
            keyq = "<%s>::%s" % (impl.header, it.name)
        if it.kind == "trait" and it.name in self.cfg.get("keep_traits", {}).get(rel, []):
            self._trait(rel, src, it)
            return
        if it.kind == "type" and it.name in self.cfg.get("keep_type_aliases", {}).get(rel, []):
            self.order.append(("type", src[it.kw_start:it.end]))
            return
        if it.kind in ("use", "mod", "type", "macro_rules", "extern", "trait", "static"):
            return
        if it.kind == "macro_call":
            raise Undecided("%s: unexpanded macro item %s" % (rel, it.name))
        if it.kind == "impl":
            if it.trait_impl and it.header in self.cfg.get("keep_trait_impls", {}).get(rel, []):
                # a kept trait impl: all its methods are rendered in every cone (a trait impl cannot be partial)
                self.order.append(("impl_open", "impl %s {" % it.header, "impl %s::%s" % (rel, it.header)))
                ic = self.contracts.get("impl %s::%s" % (rel, it.header))
                if ic is not None:
                    self.used_contracts.add(ic.key)
                    self.order.append(("const", ins(_indent(ic.opens, "    ").rstrip("\n"))))
                for sub in it.items:
                    if sub.kind == "type":
                        self.order.append(("const", "    " + src[sub.kw_start:sub.end].strip()))
                        continue
                    self._item(rel, src, sub, it, drop)
                self.order.append(("impl_close", "}"))
                return
            if it.trait_impl:
                self.dropped.append("%s::impl %s" % (rel, it.header))
                return
            if it.self_type in drop:
                self.dropped.append("%s::impl %s" % (rel, it.header))
                return
            self.order.append(("impl_open", "impl%s {" % ((" " if not it.header.startswith("<") else "") + it.header)))
            for sub in it.items:
                self._item(rel, src, sub, it, drop)
            self.order.append(("impl_close", "}"))
            return
        if qual in drop or it.name in drop and impl is None:
            self.dropped.append("%s::%s" % (rel, qual))
            return
        attrs = _kept_attrs(it)
        ndrop = len(it.attrs) - len(attrs)
        if ndrop:
            c["R1.attr"] = c.get("R1.attr", 0) + ndrop
        if any(re.match(r'#\[cfg\(feature', a[2]) for a in it.attrs):
            c["R6.cfg_feature_on"] = c.get("R6.cfg_feature_on", 0) + 1
        if it.vis:
            c["R1.vis"] = c.get("R1.vis", 0) + 1
        text = src[it.kw_start:it.end]
        if it.kind in ("struct", "enum", "union"):
            text = self._strip_field_vis_and_docs(text, rel, it.name)
            pre = ""
            for a in attrs:
                # R1: Debug is dropped from derive lists (manual Debug impls are trait impls and are dropped)
                a2 = re.sub(r"\bDebug\s*,\s*", "", a)
                if a2 == a and re.match(r"#\[derive\(\s*Debug\s*\)\]$", a):
                    a2 = ""
                if a2 != a:
                    c["R1.derive_debug"] = c.get("R1.derive_debug", 0) + 1
                for dv in self.cfg.get("drop_derives", {}).get(it.name, []):
                    # derives whose generated impl needs a trait impl that the extraction drops (e.g. PartialEq over DateTime)
                    a3 = re.sub(r",\s*%s\b|\b%s\s*,\s*" % (dv, dv), "", a2, count=1) if a2.startswith("#[derive") else a2
                    if a3 == a2 and re.match(r"#\[derive\(\s*%s\s*\)\]$" % dv, a2):
                        a3 = ""
                    if a3 != a2:
                        c["R1.derive_other"] = c.get("R1.derive_other", 0) + 1
                    a2 = a3
                if not a2:
                    continue
                pre += a2 + "\n"
            if it.vis and (rel in self.cfg.get("keep_pub_types_in", []) or it.name in self.cfg.get("keep_pub_types", [])):
                # the type stays public: it occurs in the contract of a public trait method (From::from)
                pre += "pub "
                c["R1.vis"] -= 1
            self.order.append(("type", pre + text))
            return
        if it.kind == "const":
            self.order.append(("const", ("    " if impl else "") + text))
            return
        if it.kind == "fn":
            key = "%s::%s" % (rel, keyq)
            if it.body_open < 0:
                return
            sha = hashlib.sha256(text.encode()).hexdigest()
            t = strip_inner_use(text, c)
            t = rewrite_R4(t, c)
            t = rewrite_R3(t, c)
            t = rewrite_R3c(t, c)
            t = rewrite_R3d(t, c)
            t = rewrite_R3e(t, c)
            lifted = []
            try:
                if key in self.cfg.get("lift_closures", {}):
                    t, lifted = rewrite_R8(t, key, self.cfg["lift_closures"][key], c)
                if rel in self.cfg.get("iterator_rules", []):
                    t = rewrite_R9(t, key, c)
                    t = rewrite_R11(t, key, c)
                if key in self.cfg.get("hoist_call_args", {}):
                    t = rewrite_R12(t, key, self.cfg["hoist_call_args"][key], c)
                if key in self.cfg.get("abstract_exprs", {}):
                    t = rewrite_R10(t, key, self.cfg["abstract_exprs"][key], c)
                pre_broken = None
            except Undecided as e:
                # lost anchor of a rewrite rule: only this function (and the cones containing it) become undecided
                pre_broken = str(e)
                t, lifted = rewrite_R3c(rewrite_R3(rewrite_R4(strip_inner_use(text, {}), {}), {}), {}), []
                for sp in self.cfg.get("lift_closures", {}).get(key, []):
                    self.used_contracts.add("%s::%s" % (key, sp["name"]))
            con = self.contracts.get(key)
            if con is not None:
                self.used_contracts.add(key)
            broken = pre_broken
            try:
                out = splice(t, con, key, c) if broken is None else t
            except Undecided as e:
                # a lost anchor concerns only the checks whose cone contains this function
                broken = str(e)
                out = t
            # fidelity self-check: strip what was added, undo the marked rewrites, compare tokens
            back = restore_rewrites(strip_inserts(out))
            want = rl.sig_texts(_use_stmt_re.sub("", text))
            got = rl.sig_texts(back)
            if want != got:
                raise Undecided("%s: fidelity self-check failed" % key)
            self.functions[key] = dict(file=rel, qual=qual, name=it.name, impl=impl.self_type if impl else None, sha256=sha,
                                       contract=con, src_text=text, broken=broken, always=bool(impl is not None and impl.trait_impl))
            self.order.append(("fn", key, ("    " if impl else "") + out))
            for lf in lifted:
                # R8: the lifted closure is a function of its own (contract key <fn key>::<closure name>)
                lkey = "%s::%s" % (key, lf["name"])
                lcon = self.contracts.get(lkey)
                if lcon is not None:
                    self.used_contracts.add(lkey)
                lbroken = None
                try:
                    lout = splice(lf["text"], lcon, lkey, c)
                except Undecided as e:
                    lbroken, lout = str(e), lf["text"]
                got = rl.sig_texts(restore_rewrites(strip_inserts(lout)))
                if got != rl.sig_texts(lf["closure_body"]):
                    raise Undecided("%s: fidelity self-check failed" % lkey)
                self.functions[lkey] = dict(file=rel, qual=lf["fname"], name=lf["fname"], impl=None, sha256=hashlib.sha256(lf["closure_body"].encode()).hexdigest(),
                                            contract=lcon, src_text=lf["closure_body"], broken=lbroken, always=False)
                if impl is not None:
                    raise Undecided("%s: R8 inside an impl block is not handled" % key)
                self.order.append(("fn", lkey, lout))
            return
        raise Undecided("%s: unhandled item kind %s" % (rel, it.kind))

    def _trait(self, rel, src, it):
        """a kept trait: method declarations token for token, ghost items and method contracts from the overlay"""
        tc = self.contracts.get("trait %s::%s" % (rel, it.name))
        out = "trait %s {\n" % it.name
        if tc is not None:
            self.used_contracts.add(tc.key)
            out += ins(_indent(tc.opens, "    "))
        for sub in rl.parse_items(src, it.body_open + 1, it.body_close):
            if sub.kind == "type":
                # associated type declaration: copied as it stands
                out += "    " + src[sub.kw_start:sub.end].strip() + "\n"
                continue
            if sub.kind != "fn" or sub.body_open >= 0:
                raise Undecided("%s: trait %s has an item the extraction does not handle" % (rel, it.name))
            decl = src[sub.kw_start:sub.end].rstrip()
            if not decl.endswith(";"):
                raise Undecided("%s: trait %s: unexpected method declaration" % (rel, it.name))
            mc = self.contracts.get("%s::%s::%s" % (rel, it.name, sub.name))
            spec = ""
            if mc is not None:
                self.used_contracts.add(mc.key)
                if mc.requires.strip():
                    spec += "\n        requires\n" + _indent(mc.requires, "            ").rstrip("\n")
                if mc.ensures.strip():
                    spec += "\n        ensures\n" + _indent(mc.ensures, "            ").rstrip("\n")
            out += "    " + decl[:-1] + (ins(spec) if spec else "") + ";\n"
            self.trait_methods.setdefault(it.name, []).append(sub.name)
        out += "}"
        back = rl.sig_texts(strip_inserts(out))
        want = rl.sig_texts(re.sub(r"(?m)^\s*///[^\n]*\n", "", src[it.kw_start:it.end]))
        if back != want:
            raise Undecided("%s: fidelity self-check failed for trait %s" % (rel, it.name))
        self.order.append(("type", out))

    def _strip_field_vis_and_docs(self, text, rel, name):
        # R1 on fields / variants: drop doc comments, pub on fields, cfg-gated variants listed in config
        dv = self.cfg.get("drop_variants", {}).get(name, [])
        toks = rl.lex(text)
        out = []
        i = 0
        sigt = rl.sig(toks)
        # remove `#[cfg(...)] Variant(...)` for listed variants
        for v in dv:
            m = re.search(r"#\[cfg\([^\]]*\)\]\s*(?:///[^\n]*\n\s*)*" + v + r"\b\s*(\([^)]*\))?\s*,", text)
            m2 = re.search(r"(?:///[^\n]*\n\s*)*#\[cfg\([^\]]*\)\]\s*" + v + r"\b\s*(\([^)]*\))?\s*,", text)
            m3 = re.search(r"(?m)^\s*(?:///[^\n]*\n\s*)*" + v + r"\b\s*(\([^)]*\))?\s*,[ \t]*\n", text)
            mm = m or m2 or m3
            if not mm:
                raise Undecided("%s: variant %s::%s not found" % (rel, name, v))
            text = text[:mm.start()] + text[mm.end():]
            self.counts["R6.drop_variant"] = self.counts.get("R6.drop_variant", 0) + 1
        text = re.sub(r"(?m)^\s*///[^\n]*\n", "", text)
        # R6: variants / fields gated on a default feature are kept (the default feature set is resolved as on)
        text, n = re.subn(r"(?m)^\s*#\[cfg\(feature = \"(?:alloc|std)\"\)\]\s*\n", "", text)
        if n:
            self.counts["R6.cfg_feature_on"] = self.counts.get("R6.cfg_feature_on", 0) + n
        text = re.sub(r"\bpub(\([a-z]+\))?\s+", "", text)
        return text

    # ------------------------------------------------------------------------------------------
    def render(self, keep_fns=None, lib_items=None, canary=False, delegated=()):
        """keep_fns: set of function keys to include (None = all).  lib_items: [(name, kind, text, file)].
        canary=True: every exec body and every lemma body starts with `assert(false)` (vacuity probe: each
        must then FAIL; one that passes has an unsatisfiable precondition).
        Returns (text, spans) with spans = [(first_line, last_line, name, kind)]."""
        pieces = []  # (text, name or None, kind)

        def add(text, name=None, kind=None):
            pieces.append((text, name, kind))

        add("#![allow(unused, non_snake_case, non_camel_case_types, private_interfaces)]\nuse vstd::prelude::*;\nuse core::cmp::Ordering;\nverus! {\n")
        for (n, k, t, f) in (lib_items or []):
            if canary and "by (compute" in t:
                # requires-free computation lemmas: nothing to probe, and re-running the computation would double the cost
                t = "#[verifier::external_body] /* canary: skipped */\n" + t
            elif canary and k in ("proof", "exec"):
                t = re.sub(r"(?m)^\{[ \t]*\n((?:[ \t]*(?:hide|reveal)\([^\n]*\n)*)", lambda m: "{\n" + m.group(1) + "    assert(false); // canary\n", t, count=1)
            add(t + "\n", n, k)
        impl_open = None
        impl_has = False
        for ch in self.order:
            if ch[0] == "impl_open":
                impl_open, impl_has = ch[1], False
                continue
            if ch[0] == "impl_close":
                if impl_has:
                    add("}\n")
                impl_open = None
                continue
            if ch[0] == "fn":
                key, text = ch[1], ch[2]
                if keep_fns is not None and key not in keep_fns:
                    if not self.functions[key].get("always"):
                        continue
                    # method of a kept trait impl outside this cone: signature and contract only
                    text = _delegate_body(text, self.functions[key])
                elif key in delegated:
                    # modular verification: this body is out of the property's scope; its contract is assumed here
                    # and discharged by the property that owns it (named in properties.json)
                    text = _delegate_body(text, self.functions[key])
                elif canary:
                    text = _canary_body(text, self.functions[key])
                if impl_open is not None and not impl_has:
                    add(impl_open + "\n")
                    impl_has = True
                add(text + "\n", self.functions[key]["qual"], "exec")
            elif ch[0] == "const":
                if impl_open is not None and not impl_has:
                    add(impl_open + "\n")
                    impl_has = True
                add(ch[1] + "\n")
            else:
                add(ch[1] + "\n")
        add("} // verus!\nfn main() {}\n")
        out, spans, line = [], [], 1
        for text, name, kind in pieces:
            nl = text.count("\n")
            if name is not None:
                spans.append((line, line + nl, name, kind))
            out.append(text)
            out.append("\n")
            line += nl + 1
        return "".join(out), spans


def _delegate_body(text, info):
    con = info["contract"]
    if con is not None and con.external_body:
        return text
    its = rl.parse_items(strip_inserts_keep_len(text))
    it = its[0]
    pad = re.match(r"[ \t]*", text).group(0)
    return pad + INS_L + "#[verifier::external_body] /* delegated */ " + INS_R + text.lstrip()[:0] + text[len(pad):it.body_open] + "{ unimplemented!() }" + text[it.body_close + 1:]


def _canary_body(text, info):
    """insert `assert(false)` at the start of the (real) body, after any `open` ghost text"""
    con = info["contract"]
    if con is not None and con.external_body:
        return text
    its = rl.parse_items(strip_inserts_keep_len(text))
    it = its[0]
    pos = it.body_open + 1
    if con is not None and con.opens.strip():
        # the open block is the first insert after the brace
        j = text.find(INS_R, pos)
        if j > 0 and text[pos:pos + len(INS_L)] == INS_L:
            pos = j + len(INS_R)
    return text[:pos] + INS_L + " proof { assert(false); } " + INS_R + text[pos:]


def strip_inserts_keep_len(text):
    """blank out inserted regions (same length) so that offsets stay valid"""
    out = list(text)
    i = 0
    while True:
        j = text.find(INS_L, i)
        if j < 0:
            break
        k = text.find(INS_R, j)
        k2 = k + len(INS_R)
        for q in range(j, k2):
            if out[q] != "\n":
                out[q] = " "
        i = k2
    return "".join(out)


if __name__ == "__main__":
    ex = Extraction(sys.argv[1] if len(sys.argv) > 1 else "/repo")
    sys.stdout.write(ex.render()[0])
    sys.stderr.write(json.dumps(ex.counts, indent=1) + "\n")


# ----------------------------------------------------------------------------------------------
# cones: closure of "mentions" (identifier occurrence) over extracted functions and library lemmas
# ----------------------------------------------------------------------------------------------

def _idents(text):
    return {t.text for t in rl.lex(text) if t.kind == rl.IDENT}


class Library:
    def __init__(self):
        import glob
        self.items = []  # (name, kind, text, file)
        for f in sorted(glob.glob(os.path.join(VERIF, "spec", "*.rs"))) + sorted(glob.glob(os.path.join(VERIF, "lemmas", "*.rs"))):
            for (n, k, t) in split_library(f):
                self.items.append((n, k, t, os.path.relpath(f, VERIF)))
        self.by_name = {}
        for it in self.items:
            self.by_name.setdefault(it[0], []).append(it)
        self.idents = {id(it): _idents(it[2]) for it in self.items}


def _count_args(st, i):
    """st[i] is '(' ; number of top-level arguments"""
    k = rl.match_close(st, i)
    if k == i + 1:
        return 0
    depth, n = 0, 1
    for t in st[i + 1:k]:
        if t.text in rl.OPEN:
            depth += 1
        elif t.text in rl.CLOSE:
            depth -= 1
        elif t.text == "," and depth == 0:
            n += 1
    if st[k - 1].text == ",":
        n -= 1
    return n


def fn_arity(text):
    """(number of non-self parameters) of the function whose text starts at `fn`"""
    st = rl.sig(rl.lex(strip_inserts(text)))
    for i, t in enumerate(st):
        if t.text == "fn":
            j = i + 2
            while st[j].text != "(":
                j += 1
            n = _count_args(st, j)
            k = j + 1
            first = [x.text for x in st[k:k + 3]]
            if "self" in first[:3]:
                n -= 1
            return n
    return -1


def _fn_mentions(text, own_type, fn_index):
    """function keys mentioned by `text`: `T::name` / `Self::name` -> that impl's function, `self.name(..)` -> the
    own impl's method when it has one, `x.name(..)` -> every method of that name and arity, bare `name(` -> the
    free function.  Over-approximate, never under-approximate."""
    st = rl.sig(rl.lex(text))
    out = set()
    for i, t in enumerate(st):
        if t.kind != rl.IDENT or t.text not in fn_index:
            continue
        prev = st[i - 1].text if i > 0 else ""
        prev2 = st[i - 2].text if i > 1 else ""
        nxt = st[i + 1].text if i + 1 < len(st) else ""
        cands = fn_index[t.text]
        if prev == ":" and prev2 == ":":
            ty = st[i - 3].text if i > 2 else ""
            if ty == "Self":
                ty = own_type
            out |= {k for (k, impl, ar) in cands if impl == ty}
        elif prev == "." and nxt == "(":
            n = _count_args(st, i + 1)
            ms = {k for (k, impl, ar) in cands if impl is not None and ar == n}
            if prev2 == "self" and (i < 3 or st[i - 3].text != ".") and any(impl == own_type for (k, impl, ar) in cands):
                ms = {k for (k, impl, ar) in cands if impl == own_type}
            out |= ms
        elif (nxt == "(" or (nxt == ":" and i + 3 < len(st) and st[i + 2].text == ":" and st[i + 3].text == "<")) and prev != "fn":
            # plain call, or a call with a turbofish `name::<..>(..)`
            out |= {k for (k, impl, ar) in cands if impl is None}
    return out


def _fn_mentions_any_arity(text, own_type, fn_index):
    """like _fn_mentions but ignoring arity (fn_index entries carry arity -1)"""
    st = rl.sig(rl.lex(text))
    out = set()
    for i, t in enumerate(st):
        if t.kind != rl.IDENT or t.text not in fn_index:
            continue
        prev = st[i - 1].text if i > 0 else ""
        prev2 = st[i - 2].text if i > 1 else ""
        nxt = st[i + 1].text if i + 1 < len(st) else ""
        cands = fn_index[t.text]
        if prev == ":" and prev2 == ":":
            ty = st[i - 3].text if i > 2 else ""
            if ty == "Self":
                ty = own_type
            out |= {k for (k, impl, ar) in cands if impl == ty}
        elif prev == "." and nxt == "(":
            out |= {k for (k, impl, ar) in cands if impl is not None}
        elif nxt == "(" and prev != "fn":
            out |= {k for (k, impl, ar) in cands if impl is None}
    return out


def cone(ex, lib, root_fns, root_lemmas=(), stop_at=()):
    """returns (set of function keys, list of library items in file order)"""
    fn_index = {}
    fn_text = {}
    for ch in ex.order:
        if ch[0] == "fn":
            fn_text[ch[1]] = ch[2]
            fn_index.setdefault(ex.functions[ch[1]]["name"], []).append((ch[1], ex.functions[ch[1]]["impl"], fn_arity(ch[2])))
    keep_fn, keep_lib = set(), set()
    work = []
    for r in root_fns:
        if r not in fn_text:
            raise Undecided("root function %s is not in the extraction (lost anchor)" % r)
        work.append(("fn", r))
    for l in root_lemmas:
        if l not in lib.by_name:
            raise Undecided("root lemma %s not found" % l)
        work.append(("lib", l))
    # every non-proof library item is always included (definitions are cheap); proof items on demand
    for it in lib.items:
        if it[1] not in ("proof", "exec"):
            keep_lib.add(id(it))
            work.append(("text", it[2], None))
    while work:
        w = work.pop()
        if w[0] == "fn":
            if w[1] in keep_fn:
                continue
            keep_fn.add(w[1])
            text, own = fn_text[w[1]], ex.functions[w[1]]["impl"]
            if w[1] in stop_at:
                # delegated: only the signature and contract are used, not the body
                con = ex.functions[w[1]]["contract"]
                text = (con.requires + con.ensures) if con is not None else ""
        elif w[0] == "lib":
            new = [it for it in lib.by_name[w[1]] if id(it) not in keep_lib]
            if not new:
                continue
            for it in new:
                keep_lib.add(id(it))
            text, own = "\n".join(it[2] for it in new), None
        else:
            text, own = w[1], w[2]
        for k in _fn_mentions(text, own, fn_index):
            if w[0] != "fn" and ex.functions[k].get("always"):
                # `s.push(x)` in library text is Seq::push, not a method of a kept trait impl
                continue
            if k not in keep_fn:
                work.append(("fn", k))
        for name in _idents(text):
            if name in lib.by_name and any(id(it) not in keep_lib for it in lib.by_name[name]):
                work.append(("lib", name))
    return keep_fn, [it for it in lib.items if id(it) in keep_lib]
