#!/bin/bash
# usage: refactortest.sh [id ...]  -- applies each behaviour-preserving change to /repo, runs every quick check in parallel, reverts.
# A VIOLATION (exit 1) on one of these is a FALSE ALARM of the machinery; exit 0 and exit 2 (undecided) are acceptable.
cd /verif
export VERIF_EVIDENCE_DIR=/var/tmp/tzrs-verif-evidence-scratch
ids=("$@"); [ ${#ids[@]} -eq 0 ] && ids=($(ls refactors | grep -E '^R'))
if [ -n "$(git -C /repo status --porcelain -- src)" ]; then echo "/repo/src is not clean"; exit 2; fi
PROPS="${REFACTOR_PROPS:-C01 C02 C03 C04 C05 C06 C07 C11 C12 C13 C14 C16 C17}"
for id in "${ids[@]}"; do
  git -C /repo apply /verif/refactors/$id/patch.diff || { echo "$id: patch does not apply"; continue; }
  (cd /repo && cargo test --workspace --offline 2>&1 | grep -E "^test result" | head -1 | sed "s/^/$id tests: /")
  mkdir -p /var/tmp/rt.$$
  for p in $PROPS; do
    ( VERIF_WORK=/var/tmp/rt.$$/$p ./check $p > /var/tmp/rt.$$/$p.out 2>&1; echo $? > /var/tmp/rt.$$/$p.rc ) &
  done
  wait
  line="$id:"
  for p in $PROPS; do
    rc=$(cat /var/tmp/rt.$$/$p.rc)
    line="$line $p=$rc"
    if [ "$rc" != "0" ]; then grep -E "^(VIOLATION|UNDECIDED)" /var/tmp/rt.$$/$p.out | head -2 | cut -c1-260 | sed "s/^/    $id $p: /" >> refactors/RESULTS.txt; fi
  done
  echo "$line" | tee -a refactors/RESULTS.txt
  rm -rf /var/tmp/rt.$$
  git -C /repo checkout -- .
done
