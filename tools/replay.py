"""Concrete replay of counterexamples against the real code (scratch copy of /repo + executable oracle)."""


def run_witness(repo, work, finding):
    return {"error": "replay binary not built yet"}


def search_counterexample(repo, work, pid, failure, seed):
    return {"found": False, "note": "no probe set"}


def replay_file(repo, work, path):
    print("replay not implemented yet")
    return 2
