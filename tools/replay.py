"""Concrete replay of counterexamples against the real code.

The replay binary (replaykit/) is built against /repo's current working tree (a path dependency; nothing
is written into /repo) and compares the public API's behaviour with the executable oracle.  It is used to
(1) search for a concrete failing input once a proof obligation failed, (2) re-run recorded inputs,
(3) re-run the witnesses of known findings, (4) optional cross-validation in the thorough tier.
It never decides that a property holds.
"""
import json
import os
import shutil
import subprocess

HERE = os.path.dirname(os.path.abspath(__file__))
VERIF = os.path.dirname(HERE)

_built = {}


def build(repo, work):
    """returns path of the replay binary (or raises RuntimeError with the compiler output)"""
    key = os.path.abspath(repo)
    if key in _built:
        return _built[key]
    crate = os.path.join(work, "replaykit")
    if os.path.exists(crate):
        shutil.rmtree(crate)
    shutil.copytree(os.path.join(VERIF, "replaykit"), crate)
    toml = open(os.path.join(crate, "Cargo.toml.in")).read().replace("@REPO@", key)
    open(os.path.join(crate, "Cargo.toml"), "w").write(toml)
    cache = os.environ.get("VERIF_CACHE") or "/var/tmp/tzrs-verif-cache"
    target = os.path.join(cache, "replay-target")
    os.makedirs(target, exist_ok=True)
    env = dict(os.environ, CARGO_TARGET_DIR=target, CARGO_NET_OFFLINE="true")
    env.pop("RUSTFLAGS", None)
    p = subprocess.run(["cargo", "build", "--release", "--offline", "-q"], cwd=crate, env=env, capture_output=True, text=True, timeout=900)
    if p.returncode != 0:
        raise RuntimeError("replay binary does not build against this tree:\n" + p.stderr[-3000:])
    exe = os.path.join(work, "tzrs-replay")
    shutil.copy(os.path.join(target, "release", "tzrs-replay"), exe)
    _built[key] = exe
    return exe


def _run(exe, args, timeout=10800):
    try:
        p = subprocess.run([exe] + args, capture_output=True, text=True, timeout=timeout)
    except subprocess.TimeoutExpired:
        return {"error": "replay binary timed out after %d s" % timeout}, 2
    out = p.stdout.strip().split("\n")[-1] if p.stdout.strip() else ""
    try:
        return json.loads(out), p.returncode
    except Exception:
        return {"error": "unparsable replay output: %r / %r" % (p.stdout[-300:], p.stderr[-300:])}, p.returncode


def probe(repo, work, target, seed, budget):
    try:
        exe = build(repo, work)
    except Exception as e:
        return {"error": str(e)}
    r, _ = _run(exe, ["probe", target, str(seed), str(budget)])
    return r


def run_witness(repo, work, finding):
    """finding: {probe, inputs:[ints]}"""
    try:
        exe = build(repo, work)
    except Exception as e:
        return {"error": str(e)}
    r, rc = _run(exe, ["run", finding["witness"]["probe"], ",".join(str(x) for x in finding["witness"]["inputs"])])
    return r


def search_counterexample(repo, work, pid, failure, seed):
    """public-API observation of the property whose obligation failed"""
    r = probe(repo, work, pid, seed, int(os.environ.get("VERIF_CEX_BUDGET", {"C11": "40000", "C01": "40000", "C02": "40000", "C16": "40000", "C14": "40000"}.get(pid, "6000"))))
    if r.get("error"):
        return {"found": False, "note": r["error"][:400]}
    if r.get("found"):
        return dict(found=True, probe=r["probe"], inputs=r["inputs"], expected=r["expected"], actual=r["actual"])
    return {"found": False, "note": "%d probe inputs evaluated, none differs from the oracle" % r.get("evaluations", 0)}


def replay_file(repo, work, path):
    doc = json.load(open(path))
    print("property   : %s" % doc.get("property"))
    print("obligation : %s" % doc.get("obligation"))
    if not doc.get("inputs"):
        print("no concrete input recorded (no-failing-input-found); verifier output follows")
        print(doc.get("verus_diagnostic") or doc.get("kani_output") or "")
        return 1
    try:
        exe = build(repo, work)
    except Exception as e:
        print(str(e))
        return 2
    r, rc = _run(exe, ["run", doc["probe"], ",".join(str(x) for x in doc["inputs"])])
    print("probe      : %s" % doc["probe"])
    print("inputs     : %s" % doc["inputs"])
    if r.get("reproduced"):
        print("expected   : %s" % r["expected"])
        print("actual     : %s" % r["actual"])
        print("REPRODUCED on the current tree")
        return 1
    if r.get("error"):
        print(r["error"])
        return 2
    print("not reproduced on the current tree (code and oracle agree on this input)")
    return 0
