#!/usr/bin/env python3
"""Stability sweep (development aid): each property's cone is verified under several solver seeds; functions that are
not discharged under some seed are listed.  Unstable proofs are the ones that later fail for no semantic reason."""
import json, os, sys
HERE = os.path.dirname(os.path.abspath(__file__))
sys.path.insert(0, HERE)
import extract, verus_run
repo = os.environ.get("VERIF_REPO", "/repo")
seeds = [int(x) for x in (sys.argv[2] if len(sys.argv) > 2 else "1,2,3,4,5,6").split(",")]
props = json.load(open(os.path.join(os.path.dirname(HERE), "contracts", "properties.json")))
only = sys.argv[1].split(",") if len(sys.argv) > 1 and sys.argv[1] != "all" else [p for p in props if props[p].get("verus", True)]
work = os.environ.get("VERIF_WORK", "/var/tmp/tzrs-stability")
os.makedirs(work, exist_ok=True)
ex = None
lib = extract.Library()
for pid in only:
    ex = extract.Extraction(repo, prop=pid)
    prop = props[pid]
    roots = list(ex.functions) if prop.get("all_functions") else prop.get("roots", [])
    deleg = prop.get("delegated", {})
    fns, items = extract.cone(ex, lib, roots, prop.get("lemmas", []), stop_at=set(deleg))
    dl = prop.get("delegated_lemmas", {})
    items = [((n, k, "#[verifier::external_body]\n" + t, f) if (n in dl or "by (compute" in t) else (n, k, t, f)) for (n, k, t, f) in items]
    text, spans = ex.render(keep_fns=fns, lib_items=items, delegated=set(deleg))
    gen = os.path.join(work, "stab_%s.rs" % pid)
    open(gen, "w").write(text)
    bad = {}
    for s in seeds:
        r = verus_run.run_verus(gen, rlimit=prop.get("rlimit", 100), fn_spans=[(a, b, n) for (a, b, n, k) in spans], seed=s)
        if r.compile_error:
            print(pid, "compile error", r.compile_error[:200]); break
        for f in r.failures:
            bad.setdefault(f["function"], []).append((s, f["kind"]))
    slow = sorted(((v["rlimit"], k) for k, v in r.functions.items()), reverse=True)[:3]
    print(pid, "unstable:", bad if bad else "none", "| heaviest:", [(k, round(rl / 3e6, 1)) for rl, k in slow], flush=True)
