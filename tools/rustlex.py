"""Small Rust lexer and item locator used by the extractor.

Only what the tz-rs sources need: comments (nested block comments), string / raw string / byte
string / char / byte literals, lifetimes, identifiers, numbers, single-character punctuation.
Punctuation is lexed one character at a time; token-stream equality is therefore equality of the
program text modulo whitespace and comments, which is all the fidelity check needs.
"""
import re
from dataclasses import dataclass, field

WS, COMMENT, IDENT, LIFETIME, NUM, STR, CHAR, PUNCT = "ws", "comment", "ident", "lifetime", "num", "str", "char", "punct"


@dataclass
class Tok:
    kind: str
    text: str
    pos: int

    @property
    def end(self):
        return self.pos + len(self.text)


class LexError(Exception):
    pass


_ident_re = re.compile(r"(?:r#)?[A-Za-z_][A-Za-z0-9_]*")
_num_re = re.compile(r"(?:0x[0-9a-fA-F_]+|0o[0-7_]+|0b[01_]+|[0-9][0-9_]*(?:\.[0-9][0-9_]*)?(?:[eE][+-]?[0-9_]+)?)(?:[iu](?:8|16|32|64|128|size)|f32|f64)?")
_raw_str_re = re.compile(r"b?r(#*)\"")


def lex(src):
    toks = []
    i, n = 0, len(src)
    while i < n:
        c = src[i]
        if c.isspace():
            j = i
            while j < n and src[j].isspace():
                j += 1
            toks.append(Tok(WS, src[i:j], i))
            i = j
            continue
        if src.startswith("//", i):
            j = src.find("\n", i)
            if j < 0:
                j = n
            toks.append(Tok(COMMENT, src[i:j], i))
            i = j
            continue
        if src.startswith("/*", i):
            depth, j = 1, i + 2
            while j < n and depth:
                if src.startswith("/*", j):
                    depth += 1
                    j += 2
                elif src.startswith("*/", j):
                    depth -= 1
                    j += 2
                else:
                    j += 1
            if depth:
                raise LexError("unterminated block comment at %d" % i)
            toks.append(Tok(COMMENT, src[i:j], i))
            i = j
            continue
        m = _raw_str_re.match(src, i)
        if m:
            closer = '"' + m.group(1)
            j = src.find(closer, m.end())
            if j < 0:
                raise LexError("unterminated raw string at %d" % i)
            j += len(closer)
            toks.append(Tok(STR, src[i:j], i))
            i = j
            continue
        if c == '"' or (c == "b" and src.startswith('b"', i)):
            j = i + (2 if c == "b" else 1)
            while j < n and src[j] != '"':
                j += 2 if src[j] == "\\" else 1
            if j >= n:
                raise LexError("unterminated string at %d" % i)
            j += 1
            toks.append(Tok(STR, src[i:j], i))
            i = j
            continue
        if c == "'" or (c == "b" and src.startswith("b'", i)):
            k = i + (2 if c == "b" else 1)
            # char literal: '\..' or 'x' followed by '
            if k < n and src[k] == "\\":
                j = k + 2
                while j < n and src[j] != "'":
                    j += 1
                j += 1
                toks.append(Tok(CHAR, src[i:j], i))
                i = j
                continue
            if k + 1 < n and src[k + 1] == "'" and src[k] != "'":
                j = k + 2
                toks.append(Tok(CHAR, src[i:j], i))
                i = j
                continue
            if c == "'":
                m = _ident_re.match(src, k)
                if not m:
                    raise LexError("bad lifetime at %d" % i)
                toks.append(Tok(LIFETIME, src[i:m.end()], i))
                i = m.end()
                continue
        m = _ident_re.match(src, i)
        if m:
            toks.append(Tok(IDENT, m.group(0), i))
            i = m.end()
            continue
        if c.isdigit():
            m = _num_re.match(src, i)
            # do not swallow "1..2" as float
            t = m.group(0)
            if "." in t and src.startswith("..", i + t.index(".")):
                t = t[: t.index(".")]
            toks.append(Tok(NUM, t, i))
            i += len(t)
            continue
        toks.append(Tok(PUNCT, c, i))
        i += 1
    return toks


def sig(toks):
    """significant tokens (no whitespace / comments)"""
    return [t for t in toks if t.kind not in (WS, COMMENT)]


def sig_texts(src):
    return [t.text for t in sig(lex(src))]


OPEN = {"(": ")", "[": "]", "{": "}"}
CLOSE = {")", "]", "}"}


def match_close(st, i):
    """st: significant token list, st[i] is an opening delimiter; returns index of its closer."""
    depth = 0
    j = i
    while j < len(st):
        t = st[j]
        if t.kind == PUNCT:
            if t.text in OPEN:
                depth += 1
            elif t.text in CLOSE:
                depth -= 1
                if depth == 0:
                    return j
        j += 1
    raise LexError("unbalanced delimiter at %d" % st[i].pos)


@dataclass
class Item:
    kind: str  # fn, const, struct, enum, impl, mod, use, type, trait, macro_rules, macro_call, static, extern
    name: str
    start: int  # char offset of first attribute / visibility / keyword
    end: int  # char offset one past the item
    attrs: list = field(default_factory=list)  # [(start, end, text)]
    vis: tuple = None  # (start, end)
    kw_start: int = 0  # char offset where the item proper starts (after attrs and visibility)
    # fn
    ret_arrow: int = -1  # char offset of '->' (or -1)
    ret_type: tuple = None  # (start,end) char offsets of the return type
    body_open: int = -1  # char offset of '{'
    body_close: int = -1  # char offset of matching '}'
    # impl
    header: str = ""
    trait_impl: bool = False
    self_type: str = ""
    items: list = field(default_factory=list)
    # macro
    args: str = ""
    body: tuple = None


def parse_items(src, lo=0, hi=None):
    """Locate items in src[lo:hi] (a file, or the inside of an impl / mod body)."""
    toks = [t for t in sig(lex(src[lo:hi]))]
    for t in toks:
        t.pos += lo
    items = []
    i, n = 0, len(toks)

    def txt(k):
        return toks[k].text if k < n else ""

    while i < n:
        start_i = i
        attrs = []
        while txt(i) == "#":
            j = i + 1
            if txt(j) == "!":
                j += 1
            if txt(j) != "[":
                raise LexError("bad attribute at %d" % toks[i].pos)
            k = match_close(toks, j)
            attrs.append((toks[i].pos, toks[k].end, src[toks[i].pos:toks[k].end]))
            i = k + 1
        if i >= n:
            break
        vis = None
        if txt(i) == "pub":
            vs = toks[i].pos
            ve = toks[i].end
            i += 1
            if txt(i) == "(":
                k = match_close(toks, i)
                ve = toks[k].end
                i = k + 1
            vis = (vs, ve)
        kw_i = i
        # qualifiers
        def is_qual(k):
            t = txt(k)
            if t == "const":
                return txt(k + 1) in ("fn", "unsafe", "async", "extern")
            if t == "extern":
                return (k + 1 < n and toks[k + 1].kind == STR) or txt(k + 1) == "fn"
            return t in ("unsafe", "async", "default")

        while is_qual(i):
            i += 1
            if txt(i - 1) == "extern" and toks[i].kind == STR:
                i += 1
        kw = txt(i)
        it = Item(kind=kw, name="", start=toks[start_i].pos, end=0, attrs=attrs, vis=vis, kw_start=toks[kw_i].pos)
        if kw == "fn":
            it.name = txt(i + 1)
            j = i + 2
            # generics: skip to '('
            while txt(j) != "(":
                j += 1
            k = match_close(toks, j)
            j = k + 1
            if txt(j) == "-" and txt(j + 1) == ">":
                it.ret_arrow = toks[j].pos
                j += 2
                rs = toks[j].pos
                while txt(j) not in ("{", ";", "where"):
                    if txt(j) in OPEN:
                        j = match_close(toks, j)
                    j += 1
                it.ret_type = (rs, toks[j - 1].end)
            while txt(j) not in ("{", ";"):
                j += 1
            if txt(j) == "{":
                k = match_close(toks, j)
                it.body_open, it.body_close = toks[j].pos, toks[k].pos
                j = k
            it.end = toks[j].end
            i = j + 1
        elif kw in ("struct", "enum", "union", "trait"):
            it.name = txt(i + 1)
            j = i + 2
            while txt(j) not in ("{", ";", "("):
                j += 1
            if txt(j) == "(":
                j = match_close(toks, j) + 1
                while txt(j) != ";":
                    j += 1
            elif txt(j) == "{":
                k = match_close(toks, j)
                it.body_open, it.body_close = toks[j].pos, toks[k].pos
                j = k
            it.end = toks[j].end
            i = j + 1
        elif kw == "impl":
            j = i + 1
            while txt(j) != "{":
                j += 1
            it.header = src[toks[i].end:toks[j].pos].strip()
            hdr_toks = [t.text for t in toks[i + 1:j]]
            it.trait_impl = "for" in hdr_toks
            # self type name: last identifier before generics of the type
            base = hdr_toks[hdr_toks.index("for") + 1:] if it.trait_impl else hdr_toks
            # skip leading generics <...>
            d, names = 0, []
            for t in base:
                if t == "<":
                    d += 1
                elif t == ">":
                    d -= 1
                elif d == 0 and re.match(r"[A-Za-z_]", t) and t not in ("impl", "for", "where", "dyn", "mut", "const"):
                    names.append(t)
            it.self_type = names[0] if names else ""
            it.name = it.header
            k = match_close(toks, j)
            it.body_open, it.body_close = toks[j].pos, toks[k].pos
            it.items = parse_items(src, toks[j].end, toks[k].pos)
            it.end = toks[k].end
            i = k + 1
        elif kw == "mod":
            it.name = txt(i + 1)
            j = i + 2
            if txt(j) == "{":
                k = match_close(toks, j)
                it.body_open, it.body_close = toks[j].pos, toks[k].pos
                j = k
            it.end = toks[j].end
            i = j + 1
        elif kw in ("use", "type", "static", "const", "extern"):
            it.name = txt(i + 1) if kw != "use" else ""
            if kw == "const" and it.name == "_":
                it.name = "_"
            j = i + 1
            while txt(j) != ";":
                if txt(j) in OPEN:
                    j = match_close(toks, j)
                j += 1
            it.end = toks[j].end
            i = j + 1
        elif kw == "macro_rules":
            it.kind = "macro_rules"
            it.name = txt(i + 2)
            j = i + 3
            k = match_close(toks, j)
            it.body = (toks[j].pos, toks[k].end)
            it.end = toks[k].end
            i = k + 1
            if txt(i) == ";":
                it.end = toks[i].end
                i += 1
        elif toks[i].kind == IDENT and txt(i + 1) == "!":
            it.kind = "macro_call"
            it.name = kw
            j = i + 2
            k = match_close(toks, j)
            it.args = src[toks[j].end:toks[k].pos]
            it.end = toks[k].end
            i = k + 1
            if txt(i) == ";":
                it.end = toks[i].end
                i += 1
        else:
            raise LexError("unrecognised item at offset %d: %r" % (toks[i].pos, src[toks[i].pos:toks[i].pos + 40]))
        items.append(it)
    return items
