#!/usr/bin/env python3
"""/verif/check driver: decides one property on /repo's current working tree.

exit 0  property held on everything explored (all obligations discharged, guards passed)
exit 1  VIOLATION property=<id> replay=<path>   (a named obligation failed)
exit 2  UNDECIDED (tool limit, lost anchor, unsupported construct, solver resource limit) - never an alarm
"""
import atexit
import glob
import hashlib
import json
import os
import re
import shutil
import subprocess
import sys
import time

HERE = os.path.dirname(os.path.abspath(__file__))
VERIF = os.path.dirname(HERE)
sys.path.insert(0, HERE)
import extract
import verus_run
import kani_run
import replay as replay_mod

REPO = os.environ.get("VERIF_REPO", "/repo")


def workdir():
    base = os.environ.get("VERIF_WORK") or "/var/tmp/tzrs-verif.%d" % os.getpid()
    os.makedirs(base, exist_ok=True)
    if not os.environ.get("VERIF_KEEP_WORK"):
        atexit.register(lambda: shutil.rmtree(base, ignore_errors=True))
    return base


def load_props():
    return json.load(open(os.path.join(VERIF, "contracts", "properties.json")))


def load_known():
    p = os.path.join(VERIF, "known_findings.json")
    if not os.path.exists(p):
        return []
    return json.load(open(p))["findings"]


def scan_assumptions(text):
    """mechanical scan of the generated file for everything that is assumed rather than proved"""
    found = []
    for i, line in enumerate(text.split("\n"), 1):
        code = line.split("//")[0]
        for pat, what in [(r"\bassume\s*\(", "assume"), (r"\badmit\s*\(", "admit"), (r"external_body", "external_body"),
                          (r"assume_specification", "assume_specification"), (r"verifier::truncate", "truncate"),
                          (r"\buninterp\b", "uninterp"), (r"\baxiom\b", "axiom"), (r"verifier::external\b", "external"),
                          (r"exec_allows_no_decreases_clause", "no_decreases"), (r"verifier::nonlinear", "nonlinear")]:
            if re.search(pat, code):
                found.append((what, i, code.strip()[:140]))
    return found


ALLOWED_ASSUMPTIONS = {
    "assume_specification": {"i64::rem_euclid", "i128::rem_euclid", "i128::div_euclid", "i64::abs", "i32::saturating_abs",
                             "i64::saturating_sub", "i32::saturating_sub", "i32::rem_euclid", "i32::div_euclid", "i64::div_euclid", "i32::abs",
                             "i64::saturating_abs", "i64::saturating_add", "i32::saturating_add", "i32::wrapping_abs", "i64::wrapping_abs",
                             "i32::unsigned_abs", "i64::unsigned_abs", "<FoundDateTimeList as Default>::default", "<[T]>::split_first_chunk::<N>"},
    "external_body": {"utc", "equal", "axiom_slice_len_transitions", "axiom_slice_len_leaps", "windows2_all_le", "swap_pairs", "position_gt", "be_u32", "is_tzif_magic", "parse", "parse_time"},
}


DELEGATED_LEMMA_NAMES = set()

# how far each assumed core-method specification is cross-checked against the real method by Kani (kani/std_specs.rs)
_EUCLID = "assumed; Kani cross-check complete only for the divisors the crate uses (7, 12): symbolic divisors ran 20 min without a verdict"
STD_SPEC_STATUS = {
    "i64::rem_euclid": _EUCLID + " (harnesses std_spec_euclid_i64_by_7/_by_12)",
    "i64::div_euclid": _EUCLID + " (same harnesses; not used by the unchanged tree)",
    "i32::rem_euclid": _EUCLID.replace("(7, 12)", "(7)") + " (std_spec_euclid_i32_by_7; not used by the unchanged tree)",
    "i32::div_euclid": _EUCLID.replace("(7, 12)", "(7)") + " (std_spec_euclid_i32_by_7; not used by the unchanged tree)",
    "i128::div_euclid": "assumed; divisor 10^9 only: the lowest 10^9 values proved by Kani (std_spec_euclid_i128_by_1e9_low), the main region did not finish in 3 h of CBMC (unchecked)",
    "i128::rem_euclid": "assumed; divisor 10^9 only: the lowest 10^9 values proved by Kani (std_spec_euclid_i128_by_1e9_low), the main region did not finish in 3 h of CBMC (unchecked)",
    "i64::abs": "Kani cross-check complete (std_spec_abs, thorough tier)",
    "i32::abs": "Kani cross-check complete (std_spec_abs; not used by the unchanged tree)",
    "i32::saturating_abs": "Kani cross-check complete (std_spec_abs)",
    "i64::saturating_abs": "Kani cross-check complete (std_spec_abs; not used by the unchanged tree)",
    "i32::wrapping_abs": "Kani cross-check complete (std_spec_abs; not used by the unchanged tree)",
    "i64::wrapping_abs": "Kani cross-check complete (std_spec_abs; not used by the unchanged tree)",
    "i32::unsigned_abs": "Kani cross-check complete (std_spec_abs; not used by the unchanged tree)",
    "i64::unsigned_abs": "Kani cross-check complete (std_spec_abs; not used by the unchanged tree)",
    "i64::saturating_sub": "Kani cross-check complete (std_spec_saturating)",
    "i32::saturating_sub": "Kani cross-check complete (std_spec_saturating)",
    "i64::saturating_add": "Kani cross-check complete (std_spec_saturating; not used by the unchanged tree)",
    "i32::saturating_add": "Kani cross-check complete (std_spec_saturating; not used by the unchanged tree)",
    "<[T]>::split_first_chunk::<N>": "assumed (it is split_at_checked(N) with the head viewed as an array); BOUNDED Kani cross-check for T = u8, N = 4, slices of up to 8 bytes (parse_abstractions::split_first_chunk_spec_bounded)",
    "<FoundDateTimeList as Default>::default": "derived Default of the Vec wrapper yields the empty list; Kani cross-check complete (find_abstractions::default_list_is_empty)",
}


def check_assumptions(found, text):
    """returns (list of strings for evidence, list of violations of the allow-list)"""
    out, bad = [], []
    lines = text.split("\n")
    for what, ln, code in found:
        if what == "assume_specification":
            m = re.search(r"assume_specification(?:<[^>]*>)?\s*\[\s*(.+?)\s*\]\s*\(", code)
            name = m.group(1) if m else "?"
            if name not in ALLOWED_ASSUMPTIONS["assume_specification"]:
                bad.append("%s %s (line %d)" % (what, name, ln))
            out.append("assume_specification[%s] - %s" % (name, STD_SPEC_STATUS.get(name, "assumed, no cross-check")))
        elif what == "external_body":
            nxt = " ".join(lines[ln - 1:ln + 3])
            m = re.search(r"\bfn\s+(\w+)", nxt)
            name = m.group(1) if m else "?"
            if "/* delegated */" in code:
                out.append("contract of `%s` assumed in this check (modular verification); its body is discharged by the property named under coverage.delegated_contracts" % name)
                continue
            if name not in ALLOWED_ASSUMPTIONS["external_body"]:
                bad.append("%s %s (line %d)" % (what, name, ln))
            if "/* delegated */" in code or name in DELEGATED_LEMMA_NAMES:
                out.append("lemma `%s` assumed in this check, discharged by the property named under coverage.delegated_lemmas" % name)
                continue
            if name.startswith("axiom_slice_len"):
                out.append("ASSUMED `%s`: a slice's size in bytes never exceeds isize::MAX (Rust language guarantee; Verus only knows len <= usize::MAX)" % name)
            elif name in ("windows2_all_le", "swap_pairs", "position_gt"):
                out.append("external_body contract on helper `%s` standing for an iterator-adapter expression of find_date_time (rule R10); proved for the original expression on every [i64; 7] by the Kani harness find_abstractions::%s_contract" % (name, name))
            elif name in ("be_u32", "is_tzif_magic"):
                out.append("external_body contract on helper `%s` standing for an expression of parse_header (rule R10); proved for the original expression by the complete Kani harness parse_abstractions::%s_contract" % (name, name))
            elif name in ("parse", "parse_time"):
                out.append("NOT VERIFIED: `DataBlocks::%s` (the TZif decoder proper: iterator chains, outside Verus's subset) is rendered external_body so that its caller parse_tz_file can be verified; nothing is assumed about its result except that it is a function of its arguments (uninterpreted decoded_zone), and NO claim is made about its own panics / overflows - it is excluded from C07's function set" % name)
            elif name.startswith("axiom_"):
                out.append("ASSUMED lemma `%s` (external_body proof fn, not proved)" % name)
            else:
                out.append("external_body contract on `%s` (rule R7; backed by a complete Kani harness on the real body)" % name)
        elif what == "uninterp" and "decoded_zone" in code:
            out.append("uninterpreted specification function `decoded_zone` (stands for the result of the unverified decoder DataBlocks::parse; no axioms about it)")
        else:
            bad.append("%s (line %d): %s" % (what, ln, code))
    return sorted(set(out)), bad


class Outcome:
    def __init__(self, pid, tier, seed):
        self.pid, self.tier, self.seed = pid, tier, seed
        self.t0 = time.time()
        self.violations = []  # (obligation, replay_path, no_input)
        self.known = []
        self.undecided = []
        self.evidence = dict(property_id=pid, tier=tier, seed=seed, level="proof", coverage={}, assumptions=[], wall_s=0.0, violations=0)

    def write_evidence(self):
        self.evidence["wall_s"] = round(time.time() - self.t0, 2)
        self.evidence["violations"] = len(self.violations)
        edir = os.environ.get("VERIF_EVIDENCE_DIR") or os.path.join(VERIF, "evidence")
        os.makedirs(edir, exist_ok=True)
        p = os.path.join(edir, "%s.json" % self.pid)
        with open(p, "w") as f:
            json.dump(self.evidence, f, indent=1, sort_keys=False)
        return p


def verus_property(pid, prop, tier, seed, out, work):
    """the Verus part of a property.  Fills `out`.  Returns the generated text (for the scan)."""
    ex = extract.Extraction(REPO, prop=pid)
    lib = extract.Library()
    roots = prop.get("roots", [])
    lemmas = prop.get("lemmas", [])
    if prop.get("all_functions"):
        roots = list(ex.functions)
    delegated = prop.get("delegated", {})
    for k in delegated:
        if k not in ex.functions:
            raise extract.Undecided("delegated function %s is not in the extraction (lost anchor)" % k)
    fns, items = extract.cone(ex, lib, roots, lemmas, stop_at=set(delegated))
    for k in sorted(fns):
        if ex.functions[k].get("broken"):
            raise extract.Undecided(ex.functions[k]["broken"])
    dl = prop.get("delegated_lemmas", {})
    DELEGATED_LEMMA_NAMES.clear()
    DELEGATED_LEMMA_NAMES.update(dl)
    if dl:
        # lemmas owned by another property: assumed here (rendered external_body), discharged there
        items = [((n, k, "#[verifier::external_body] /* delegated */\n" + t, f) if n in dl else (n, k, t, f)) for (n, k, t, f) in items]
    text, spans = ex.render(keep_fns=fns, lib_items=items, delegated=set(delegated))
    gen = os.path.join(work, "tzrs_verif_%s.rs" % pid)
    open(gen, "w").write(text)
    rlimit = prop.get("rlimit", 100)
    fspans = [(a, b, n) for (a, b, n, k) in spans]
    res = verus_run.run_verus(gen, rlimit=rlimit, fn_spans=fspans, seed=(seed if tier == "thorough" and seed else None))
    # A proof found under any solver seed is a proof.  An obligation that is not discharged is retried with two other
    # seeds before it is reported, so that solver instability on the unchanged tree cannot become an alarm; a real
    # violation fails under every seed.  The instability itself is recorded in the evidence.
    retries = []
    if not res.compile_error and (res.failures or not res.ok):
        failing = {f["function"] for f in res.failures}
        for alt_seed, rl2 in ((7919, rlimit), (104729, min(300, rlimit * 3))):
            if not failing:
                break
            # lemmas already discharged by the first run are not re-proved in a retry (same text, same statement)
            done_lemmas = {it[0] for it in items if it[1] == "proof" and res.functions.get(it[0], {}).get("success") and it[0] not in failing}
            items_retry = [((n, k, "#[verifier::external_body] /* discharged in the first run */\n" + t, f) if (n in done_lemmas and "external_body" not in t) else (n, k, t, f)) for (n, k, t, f) in items]
            text_retry, spans_retry = ex.render(keep_fns=fns, lib_items=items_retry, delegated=set(delegated))
            gen_retry = os.path.join(work, "tzrs_verif_%s_retry.rs" % pid)
            open(gen_retry, "w").write(text_retry)
            r2 = verus_run.run_verus(gen_retry, rlimit=rl2, fn_spans=[(a, b, n) for (a, b, n, k) in spans_retry], seed=alt_seed)
            if r2.compile_error:
                break
            still = {f["function"] for f in r2.failures}
            recovered = sorted(failing - still)
            retries.append(dict(seed=alt_seed, recovered=recovered, still_failing=sorted(failing & still)))
            for name in recovered:
                if name in r2.functions:
                    res.functions[name] = r2.functions[name]
            res.failures = [f for f in res.failures if f["function"] in still]
            # a definite failure from any run replaces a mere resource-limit report for the same function
            for name in failing & still:
                if all(f["rlimit"] for f in res.failures if f["function"] == name):
                    definite = [f for f in r2.failures if f["function"] == name and not f["rlimit"]]
                    if definite:
                        res.failures = [f for f in res.failures if f["function"] != name] + definite
            failing &= still
        res.ok = not res.failures
    cov = out.evidence["coverage"]
    cov["checker_cmd"] = res.cmd.replace(work, "$WORK")
    cov["verus"] = res.versions
    if res.compile_error:
        out.undecided.append("generated file not accepted by Verus: " + res.compile_error[:1200])
        return text, ex, fns, items, spans, res
    # obligations = exec functions and lemmas of the cone, as reported by Verus
    exec_names = {ex.functions[k]["qual"] for k in fns}
    assumed_lemmas = sorted(it[0] for it in items if it[1] in ("proof", "exec") and "verifier::external_body" in it[2])
    proof_names = {it[0] for it in items if it[1] in ("proof", "exec") and it[0] not in assumed_lemmas}
    obligations, discharged, samples = 0, 0, []
    missing = []
    per_fn = []
    for name in sorted(exec_names | proof_names):
        ent = res.functions.get(name)
        k = [kk for kk in fns if ex.functions[kk]["qual"] == name]
        con = ex.functions[k[0]]["contract"] if k else None
        if ent is None:
            if (con is not None and con.external_body) or (k and k[0] in delegated):
                continue
            missing.append(name)
            continue
        obligations += 1
        if ent["success"]:
            discharged += 1
        per_fn.append(dict(function=name, mode=ent["mode"], solver_ms=round(ent["ms"], 1), rlimit=ent["rlimit"], discharged=ent["success"], backend="verus/z3"))
    if missing:
        out.undecided.append("functions of the cone missing from Verus's per-function report: " + ", ".join(missing))
    cov["obligations"] = obligations
    cov["discharged"] = discharged
    cov["solver_ms"] = round(sum(x["solver_ms"] for x in per_fn), 1)
    cov["backends"] = {"verus_z3": discharged, "cbmc": 0}
    per_fn.sort(key=lambda x: -x["solver_ms"])
    cov["samples"] = per_fn[:25]
    # functions whose body is replaced without a backing harness (the TZif decoder proper) are NOT under contract
    unverified = {k for k in fns if ex.functions[k]["contract"] is not None and ex.functions[k]["contract"].external_body and not ex.functions[k]["contract"].backed_by}
    cov["functions_under_contract"] = sorted(ex.functions[k]["qual"] for k in fns if ex.functions[k]["contract"] is not None and k not in unverified)
    if unverified:
        cov["functions_rendered_external_unverified"] = sorted(ex.functions[k]["qual"] for k in unverified)
    cov["functions_without_contract_in_cone"] = sorted(ex.functions[k]["qual"] for k in fns if ex.functions[k]["contract"] is None)
    cov["lemmas"] = sorted(proof_names)
    cov["assumed_lemmas"] = assumed_lemmas
    cov["delegated_contracts"] = [dict(function=ex.functions[k]["qual"], contract_assumed_here_discharged_under=v) for k, v in delegated.items() if k in fns]
    cov["delegated_lemmas"] = [dict(lemma=n, assumed_here_discharged_under=v) for n, v in dl.items()]
    clause_counts = dict(requires=0, ensures=0, loop_specs=0, ghost_blocks=0)
    for k in fns:
        c = ex.functions[k]["contract"]
        if c is None:
            continue
        clause_counts["requires"] += len([l for l in c.requires.split("\n") if l.strip().endswith(",")])
        clause_counts["ensures"] += len([l for l in c.ensures.split("\n") if l.strip().endswith(",")])
        clause_counts["loop_specs"] += len(c.loops)
        clause_counts["ghost_blocks"] += len(c.inserts) + (1 if c.opens.strip() else 0)
    cov["clause_counts"] = clause_counts
    cov["extraction"] = dict(rules_applied=ex.counts, source_sha256={ex.functions[k]["qual"]: ex.functions[k]["sha256"][:16] for k in sorted(fns)},
                             file_sha256={f: h[:16] for f, h in ex.file_sha.items()},
                             not_under_contract=sorted(set(ex.dropped)) + ["parse/* (whole directory)", "utils/system_time.rs", "all Display / Error / From trait impls except From<DateTimeError> for TzError", "#[cfg(test)] modules"])
    cov["exhaustive"] = False
    cov["solver_retries"] = retries
    # failures
    fails = res.failures
    real = [f for f in fails if not f["rlimit"]]
    rl = [f for f in fails if f["rlimit"]]
    for f in rl:
        out.undecided.append("solver resource limit in %s (not a verdict)" % f["function"])
    # Functions that the overlay does not know (new helpers introduced by an edit) are verified with `requires true` and
    # give their callers no postcondition.  A failed obligation inside such a function, or inside a function that calls
    # one, means "needs a contract", not "bug": it is reported as undecided (the concrete probe may still refute).
    uncontracted = {ex.functions[k]["qual"]: k for k in fns if ex.functions[k]["contract"] is None}
    if uncontracted:
        fn_index = {}
        for k in ex.functions:
            fn_index.setdefault(ex.functions[k]["name"], []).append((k, ex.functions[k]["impl"], -1))
        texts = {ch[1]: ch[2] for ch in ex.order if ch[0] == "fn"}
        tainted = set(uncontracted)
        for k in fns:
            ms = extract._fn_mentions_any_arity(texts[k], ex.functions[k]["impl"], fn_index)
            if any(m in uncontracted.values() for m in ms):
                tainted.add(ex.functions[k]["qual"])
        keep = []
        for f in real:
            if f["function"] in tainted:
                out.undecided.append("obligation %s depends on `%s`, a function without a contract in the overlay (needs a contract, not a verdict)" % (
                    verus_run.obligation_name(f), ", ".join(sorted(uncontracted))))
            else:
                keep.append(f)
        real = keep
    # Safety obligations (overflow, bounds, division by zero, termination) are the subject of C07.  Under any other
    # property a failed safety obligation does not contradict that property's statement; it is left to C07 and
    # reported here as undecided.
    if not prop.get("owns_safety_obligations"):
        keep = []
        for f in real:
            if f["kind"] in ("overflow", "index", "div-by-zero", "decreases", "unreachable"):
                out.undecided.append("safety obligation %s not discharged (decided under C07, not a verdict on %s)" % (verus_run.obligation_name(f), pid))
            else:
                keep.append(f)
        real = keep
    else:
        # C07 is about panics, overflow, bounds and termination.  A failed functional obligation (postcondition, assertion,
        # invariant, lemma precondition) is the subject of the property owning that contract; here it only means that the
        # safety proofs of code relying on that contract are not established: undecided, not a C07 violation.
        keep = []
        for f in real:
            functional = f["kind"] in ("post", "assert", "inv-init", "inv-end", "inv", "loop-ensures", "recommends") or (
                f["kind"] == "pre-of" and re.search(r"\b(lemma_|prop_|axiom_|compose_)", f.get("rendered", "")))
            # ...except in constructors / validators: their contracts establish the type invariants (field ranges, index bounds)
            # that the no-panic proofs of every other function assume, so a constructor that no longer establishes its
            # postcondition does break C07's argument
            if functional and not re.search(r"(::new|::check_inputs)$", f["function"]):
                out.undecided.append("functional obligation %s not discharged (decided under the property owning that contract; the safety of code relying on it is not established)" % verus_run.obligation_name(f))
            else:
                keep.append(f)
        real = keep
    out.verus_failures = real
    out.lemma_names = proof_names
    # assumption scan
    found = scan_assumptions(text)
    alist, bad = check_assumptions(found, text)
    out.evidence["assumptions"] = alist + [
        "machine integers: exec arithmetic is checked against overflow in the i64/i128/usize types actually used; spec arithmetic is mathematical",
        "extraction rules R1-R12 preserve meaning (counts under coverage.extraction.rules_applied; fidelity self-check passed on this run)",
        "Verus, Z3, rustc are correct; termination is proved by Verus only",
        "type-invariant meta-argument: values of private-field types only arise from the verified constructors",
        "default feature set (alloc+std resolved as on); 64-bit target",
    ]
    if bad:
        out.undecided.append("assumption scan found items outside the allow-list: " + "; ".join(bad))
    # vacuity canary (a): every body must fail `assert(false)` at its start
    ctext, cspans = ex.render(keep_fns=fns, lib_items=items, canary=True, delegated=set(delegated))
    cgen = os.path.join(work, "tzrs_canary_%s.rs" % pid)
    open(cgen, "w").write(ctext)
    cres = verus_run.run_verus(cgen, rlimit=10, fn_spans=[(a, b, n) for (a, b, n, k) in cspans])
    vac = []
    if cres.compile_error:
        out.undecided.append("canary file not accepted: " + cres.compile_error[:300])
    else:
        for name in sorted(exec_names | proof_names):
            ent = cres.functions.get(name)
            if ent is not None and ent["success"] and not name.startswith("lemma_mm_compute"):
                vac.append(name)
    cov["vacuity_canaries"] = dict(probed=len([n for n in (exec_names | proof_names) if n in cres.functions]), passed_vacuously=vac,
                                   rule="each exec body / lemma body prefixed with assert(false) must fail; one that verifies has an unsatisfiable precondition")
    if vac:
        out.undecided.append("vacuous precondition in: " + ", ".join(vac))
    return text, ex, fns, items, spans, res


def report(out, prop, work):
    """turn collected failures into VIOLATION / KNOWN-FINDING lines; returns exit code"""
    pid = out.pid
    known = [k for k in load_known() if k["property"] == pid and k.get("status") == "open"]
    os.makedirs(os.path.join(VERIF, "replay"), exist_ok=True)
    code = 0
    # known findings: re-run their witness on the real code
    for k in known:
        r = replay_mod.run_witness(REPO, work, k)
        if r.get("reproduced"):
            print("KNOWN-FINDING: property=%s %s" % (pid, k["what"]))
            out.known.append(k["id"])
        elif r.get("error"):
            out.undecided.append("could not replay known finding %s: %s" % (k["id"], r["error"]))
    for f in getattr(out, "verus_failures", []):
        name = verus_run.obligation_name(f)
        if f["function"] in getattr(out, "lemma_names", set()) or f["function"] == "?":
            # a library lemma mentions no /repo code: its failure is a weakness of the proof text, never a verdict
            out.undecided.append("library lemma not discharged: %s" % name)
            continue
        # is this failure explained by a known open finding?  (matched by obligation, and the witness reproduced)
        if any(kk["id"] in out.known and re.search(kk["obligation"], name) for kk in known):
            continue
        cex = replay_mod.search_counterexample(REPO, work, pid, f, out.seed)
        rp = os.path.join(VERIF, "replay", "%s-%s.json" % (pid, hashlib.sha1(name.encode()).hexdigest()[:10]))
        doc = dict(property=pid, obligation=name, function=f["function"], kind=f["kind"], verus_diagnostic=f["rendered"], backend="verus/z3")
        if cex and cex.get("found"):
            doc.update(inputs=cex["inputs"], expected=cex["expected"], actual=cex["actual"], probe=cex["probe"])
            json.dump(doc, open(rp, "w"), indent=1)
            print("VIOLATION property=%s replay=%s" % (pid, rp))
        else:
            doc.update(inputs=None, note="no failing input found by the concrete search (%s); the obligation passed on the unchanged tree and fails now" % (cex or {}).get("note", "no probe"))
            json.dump(doc, open(rp, "w"), indent=1)
            print("VIOLATION property=%s replay=%s no-failing-input-found" % (pid, rp))
        out.violations.append(name)
        code = 1
    # concrete cross-validation (BOUNDED, never counted as proved): the property's public-API probe set is run on the
    # real code against the executable oracle.  It can only add refutations (a concrete failing input is always sound);
    # it reaches code that no contract reaches (e.g. datetime/find.rs as far as the probes exercise it).
    if code == 0 and prop.get("probe", True):
        budget = int(os.environ.get("VERIF_PROBE_BUDGET", str(prop.get("probe_budget_thorough", 200000)) if out.tier == "thorough" else "3000"))
        r = replay_mod.probe(REPO, work, pid, out.seed, budget)
        cx = dict(bounded=True, counted_as_proved=False, budget=budget)
        if r.get("error"):
            out.undecided.append("replay binary unavailable: " + r["error"][:300])
        elif r.get("found"):
            name = "%s::concrete-refutation" % r["probe"]
            rp = os.path.join(VERIF, "replay", "%s-%s.json" % (pid, hashlib.sha1(name.encode()).hexdigest()[:10]))
            json.dump(dict(property=pid, obligation=name, function=None, kind="concrete", backend="replay binary (real code vs executable oracle)",
                           verus_diagnostic="", inputs=r["inputs"], expected=r["expected"], actual=r["actual"], probe=r["probe"]), open(rp, "w"), indent=1)
            if any(kk["id"] in out.known and kk.get("witness", {}).get("probe", "").split("_full")[0] == r["probe"] and False for kk in known):
                pass
            print("VIOLATION property=%s replay=%s" % (pid, rp))
            out.violations.append(name)
            code = 1
            cx.update(found=True)
        else:
            cx.update(found=False, evaluations=r.get("evaluations", 0), distinct_inputs=r.get("distinct", 0), samples=r.get("samples", [])[:6])
            if out.evidence["level"] != "proof":
                cov = out.evidence["coverage"]
                cov["evaluations"] = r.get("evaluations", 0)
                cov["distinct_nontrivial"] = r.get("distinct", 0)
                cov["rule"] = "inputs of the property's replay probes (boundary lattice + VERIF_SEED-seeded random); distinct = distinct input vectors; each is evaluated on the real public API and on the executable oracle"
                cov["samples"] = r.get("samples", [])[:6]
        out.evidence["coverage"]["concrete_cross_validation"] = cx
    for v in getattr(out, "kani_violations", []):
        print("VIOLATION property=%s replay=%s%s" % (pid, v["replay"], "" if v.get("has_input") else " no-failing-input-found"))
        out.violations.append(v["obligation"])
        code = 1
    if code == 0 and out.undecided:
        # the proof could not be attempted or completed.  A concrete failing input on the real code is still a
        # sound refutation: run the property's public-API probe set against the executable oracle.
        cex = replay_mod.search_counterexample(REPO, work, pid, None, out.seed)
        if cex and cex.get("found"):
            name = "%s::concrete-refutation" % cex["probe"]
            rp = os.path.join(VERIF, "replay", "%s-%s.json" % (pid, hashlib.sha1(name.encode()).hexdigest()[:10]))
            json.dump(dict(property=pid, obligation=name, function=None, kind="concrete", backend="replay binary (real code vs executable oracle)",
                           verus_diagnostic="proof undecided: " + "; ".join(out.undecided)[:1500], inputs=cex["inputs"], expected=cex["expected"],
                           actual=cex["actual"], probe=cex["probe"]), open(rp, "w"), indent=1)
            print("VIOLATION property=%s replay=%s" % (pid, rp))
            out.violations.append(name)
            return 1
        for u in out.undecided:
            print("UNDECIDED property=%s %s" % (pid, u))
        code = 2
    return code


def main():
    args = sys.argv[1:]
    if not args:
        print(__doc__)
        return 2
    if args[0] == "replay":
        return replay_mod.replay_file(REPO, workdir(), args[1])
    pid = args[0]
    tier = os.environ.get("VERIF_TIER", "quick")
    if "--tier" in args:
        tier = args[args.index("--tier") + 1]
    seed = int(os.environ.get("VERIF_SEED", "0") or 0)
    props = load_props()
    if pid not in props:
        print("unknown property %s" % pid)
        return 2
    prop = props[pid]
    work = workdir()
    out = Outcome(pid, tier, seed)
    out.evidence["level"] = prop.get("level", "proof")
    try:
        if prop.get("verus", True):
            verus_property(pid, prop, tier, seed, out, work)
        if prop.get("structural"):
            import structural
            names = prop["structural"] if isinstance(prop["structural"], list) else [prop["structural"]]
            shapes = []
            for nm in names:
                ok, facts, problems = getattr(structural, nm)(REPO)
                shapes.append(dict(check=nm, facts=facts, problems=problems))
                for pr in problems:
                    out.undecided.append("shape relied on by the meta-argument changed: " + pr)
            out.evidence["coverage"]["structural_shape"] = shapes if len(shapes) > 1 else shapes[0]
        kani_run.run_for_property(REPO, work, pid, prop, tier, seed, out)
        code = report(out, prop, work)
    except extract.Undecided as e:
        out.undecided.append(str(e))
        code = report(out, prop, work)
    except Exception as e:  # a defect of the machinery must never look like a verdict; evidence is still written
        import traceback
        traceback.print_exc()
        out.undecided.append("internal error of the checking machinery: %r" % (e,))
        print("UNDECIDED property=%s internal error of the checking machinery: %r" % (pid, e))
        code = 2
    cov = out.evidence["coverage"]
    cov.setdefault("obligations", 0)
    cov.setdefault("discharged", 0)
    cov.setdefault("checker_cmd", "")
    cov["trusted_base"] = prop.get("trusted_base", []) + (["verus 0.2026.09.13 / z3", "rustc", "extraction rules R1-R12 (tools/extract.py)", "spec library spec/*.rs (definitions)"] if prop.get("verus", True) else ["rustc"])
    if cov.get("concrete_cross_validation"):
        cov["trusted_base"].append("executable oracle replaykit/src/oracle.rs (used only to refute, never to pass)")
    cov["known_findings_reproduced"] = out.known
    cov["undecided"] = out.undecided
    cov["violated_obligations"] = out.violations
    if prop.get("claim"):
        cov["claim"] = prop["claim"]
    if out.evidence["level"] == "other":
        cov.setdefault("explanation", prop.get("explanation", ""))
    out.write_evidence()
    if code == 0:
        print("OK property=%s tier=%s obligations=%d discharged=%d wall=%.1fs" % (pid, tier, cov["obligations"], cov["discharged"], time.time() - out.t0))
    return code


if __name__ == "__main__":
    try:
        rc = main()
    except SystemExit:
        raise
    except BaseException as e:  # a defect of the machinery must never look like a verdict
        import traceback
        traceback.print_exc()
        print("UNDECIDED internal error of the checking machinery: %r" % (e,))
        rc = 2
    sys.exit(rc)
