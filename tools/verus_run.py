"""Run Verus on a generated file and turn its output into named obligations."""
import json
import os
import re
import subprocess
import time

VERIFICATION_MESSAGES = [
    ("postcondition not satisfied", "post"),
    ("precondition not satisfied", "pre-of"),
    ("assertion failed", "assert"),
    ("possible arithmetic underflow/overflow", "overflow"),
    ("possible division by zero", "div-by-zero"),
    ("invariant not satisfied at end of loop body", "inv-end"),
    ("invariant not satisfied before loop", "inv-init"),
    ("loop invariant not satisfied", "inv"),
    ("loop ensures not satisfied", "loop-ensures"),
    ("precondition not met: index in bounds", "index"),
    ("precondition not met", "pre-of"),
    ("decreases not satisfied", "decreases"),
    ("could not prove termination", "decreases"),
    ("possible bit shift underflow/overflow", "overflow"),
    ("recommendation not met", "recommends"),
    ("unreachable", "unreachable"),
    ("split assertion failure", "assert"),
    ("split postcondition failure", "post"),
    ("split precondition failure", "pre-of"),
]
RLIMIT_MESSAGES = ["Resource limit (rlimit) exceeded", "rlimit", "Verus's Z3 process was killed", "timed out"]


class VerusResult:
    def __init__(self):
        self.ok = False
        self.compile_error = None  # text if the file did not get to verification
        self.functions = {}  # name -> dict(mode, ms, rlimit, success)
        self.failures = []  # dict(function, kind, message, line, clause, rendered, rlimit: bool)
        self.verified = 0
        self.errors = 0
        self.wall_s = 0.0
        self.cmd = ""
        self.versions = {}
        self.raw_stderr = ""


def run_verus(path, rlimit=100, threads=16, extra=(), timeout=3000, fn_spans=None, seed=None):
    """fn_spans: [(start_line, end_line, name)] of the generated file, to attribute diagnostics."""
    cmd = ["verus", path, "--output-json", "--time", "--multiple-errors", "4", "--triggers-mode", "silent", "--rlimit", str(rlimit),
           "--num-threads", str(threads), "--error-format=json"] + list(extra)
    if seed is not None:
        cmd += ["--smt-option", "smt.random_seed=%d" % seed]
    res = VerusResult()
    res.cmd = " ".join(cmd)
    t0 = time.time()
    try:
        p = subprocess.run(cmd, capture_output=True, text=True, timeout=timeout, cwd=os.path.dirname(path))
    except subprocess.TimeoutExpired:
        res.compile_error = "verus timed out after %ds" % timeout
        res.wall_s = time.time() - t0
        return res
    res.wall_s = time.time() - t0
    res.raw_stderr = p.stderr
    try:
        d = json.loads(p.stdout)
    except Exception:
        d = None
    diags = []
    for line in p.stderr.split("\n"):
        line = line.strip()
        if line.startswith("{") and '"$message_type"' in line:
            try:
                diags.append(json.loads(line))
            except Exception:
                pass
    errors = [x for x in diags if x.get("level") == "error" and not x.get("message", "").startswith("aborting due to")]
    if d is None:
        res.compile_error = "no JSON result from verus; stderr tail: " + p.stderr[-1500:]
        return res
    res.versions = d.get("verus", {})
    vr = d.get("verification-results", {})
    res.verified = vr.get("verified", 0)
    res.errors = vr.get("errors", 0)
    for m in d.get("times-ms", {}).get("smt", {}).get("smt-run-module-times", []):
        for f in m.get("function-breakdown", []):
            name = f["function"].split("::", 1)[1] if "::" in f["function"] else f["function"]
            prev = res.functions.get(name)
            ent = dict(mode=f.get("mode:", f.get("mode", "")), ms=f["time-micros"] / 1000.0, rlimit=f["rlimit"], success=f["success"])
            if prev:
                ent["ms"] += prev["ms"]
                ent["rlimit"] += prev["rlimit"]
                ent["success"] = ent["success"] and prev["success"]
            res.functions[name] = ent
    if vr.get("encountered-vir-error") or (not vr and errors):
        res.compile_error = "; ".join(e["message"] for e in errors[:5]) or "verus reported a VIR error"
        return res
    for e in errors:
        msg = e.get("message", "")
        kind = None
        for pat, k in VERIFICATION_MESSAGES:
            if pat in msg:
                kind = k
                break
        is_rlimit = any(x in msg for x in RLIMIT_MESSAGES)
        if kind is None and not is_rlimit:
            # not a verification diagnostic: the generated file is not acceptable to Verus/rustc
            res.compile_error = msg + "\n" + (e.get("rendered") or "")[:1500]
            return res
        prim = [s for s in e.get("spans", []) if s.get("is_primary")] or e.get("spans", [])
        line = prim[0]["line_start"] if prim else 0
        # the function a diagnostic belongs to: the one containing the body/primary span that is inside a function
        fn = None
        lines_all = [s["line_start"] for s in e.get("spans", [])]
        if fn_spans:
            cands = []
            for s in e.get("spans", []):
                for (a, b, name) in fn_spans:
                    if a <= s["line_start"] <= b:
                        cands.append((s.get("is_primary", False), name, s))
            # for "precondition not satisfied" the primary span is the call site -> that function
            # for "postcondition not satisfied" both spans are in the same function
            for pr, name, s in cands:
                if pr:
                    fn = name
                    break
            if fn is None and cands:
                fn = cands[0][1]
        clause = ""
        for s in e.get("spans", []):
            lab = s.get("label") or ""
            if "failed" in lab or s.get("is_primary"):
                t = s.get("text") or []
                if t:
                    tx = t[0]["text"]
                    hs, he = t[0].get("highlight_start", 1), t[0].get("highlight_end", len(tx) + 1)
                    frag = tx[hs - 1:he - 1] if s["line_start"] == s["line_end"] else tx[hs - 1:]
                    if "failed" in lab or not clause:
                        clause = frag.strip()
        res.failures.append(dict(function=fn or "?", kind=("rlimit" if is_rlimit else kind), message=msg, line=line, clause=clause[:160],
                                 rendered=(e.get("rendered") or "")[:3000], rlimit=is_rlimit))
    res.ok = bool(vr.get("success")) and not res.failures
    return res


def obligation_name(f):
    c = re.sub(r"/\*@[<>]\*/", "", f["clause"])
    c = re.sub(r"\s+", " ", c).strip()
    return "%s::%s[%s]" % (f["function"], f["kind"], c[:90])
