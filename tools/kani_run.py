"""Second back end (Kani/CBMC).  Harness modules (kani/*.rs) are appended to a scratch copy of /repo's sources as
child modules under cfg(kani), so they see private items and /repo itself is never touched."""
import json
import os
import re
import shutil
import subprocess
import time

HERE = os.path.dirname(os.path.abspath(__file__))
VERIF = os.path.dirname(HERE)

APPEND = {
    "timezone_mod.rs": "src/timezone/mod.rs",
    "datetime_mod.rs": "src/datetime/mod.rs",
    "datetime_find.rs": "src/datetime/find.rs",
    "find_abstractions.rs": "src/datetime/find.rs",
    "std_specs.rs": "src/utils/const_fns.rs",
    "parse_tz_file.rs": "src/parse/tz_file.rs",
    "parse_abstractions.rs": "src/parse/tz_file.rs",
    "rule.rs": "src/timezone/rule.rs",
}


def prepare(repo, work):
    dst = os.path.join(work, "kani_repo")
    if os.path.exists(dst):
        shutil.rmtree(dst)
    os.makedirs(dst)
    shutil.copytree(os.path.join(repo, "src"), os.path.join(dst, "src"))
    for f in ("Cargo.toml", "Cargo.lock"):
        if os.path.exists(os.path.join(repo, f)):
            shutil.copy(os.path.join(repo, f), os.path.join(dst, f))
    os.makedirs(os.path.join(dst, ".cargo"), exist_ok=True)
    open(os.path.join(dst, ".cargo", "config.toml"), "w").write("[net]\noffline = true\n")
    extra = dict(x.split("=") for x in os.environ.get("KANI_EXTRA", "").split(",") if "=" in x)
    for h, target in list(APPEND.items()) + list(extra.items()):
        hp = os.path.join(VERIF, "kani", h)
        tp = os.path.join(dst, target)
        if os.path.exists(hp) and os.path.exists(tp):
            with open(tp, "a") as f:
                f.write("\n" + open(hp).read())
    return dst


def run_harnesses(repo, work, harnesses, timeout=1500, extra_flags=()):
    """returns {harness: dict(status: SUCCESSFUL|FAILED|UNDECIDED, seconds, failed_checks:[...], covers: (sat, total), output_tail)}"""
    if not harnesses:
        return {}
    dst = prepare(repo, work)
    cache = os.environ.get("VERIF_CACHE") or "/var/tmp/tzrs-verif-cache"
    env = dict(os.environ, CARGO_NET_OFFLINE="true", CARGO_TARGET_DIR=os.path.join(cache, "kani-target"))
    env.pop("RUSTFLAGS", None)
    env.pop("RUSTUP_TOOLCHAIN", None)
    results = {}
    cmd = ["cargo", "kani", "-Z", "function-contracts", "-Z", "stubbing", "--output-format", "terse", "-j", str(min(8, len(harnesses)))] + list(extra_flags)
    for h in harnesses:
        cmd += ["--harness", h]
    t0 = time.time()
    import signal
    proc = subprocess.Popen(cmd, cwd=dst, env=env, stdout=subprocess.PIPE, stderr=subprocess.STDOUT, text=True, start_new_session=True)
    try:
        out, _ = proc.communicate(timeout=timeout)
    except subprocess.TimeoutExpired:
        # kill the whole process group: cbmc children survive a plain kill of cargo-kani
        try:
            os.killpg(proc.pid, signal.SIGKILL)
        except Exception:
            pass
        out, _ = proc.communicate()
        out = (out or "") + "\nTIMEOUT"
    dt = time.time() - t0
    # split per harness (with -j the output is tagged "Thread k:")
    seen, tmap, cur = {}, {}, None
    for line in out.split("\n"):
        m = re.match(r"^(?:Thread (\d+): )?Checking harness (\S+?)\.\.\.", line)
        if m:
            name = m.group(2).split("::")[-1]
            tmap[m.group(1) or "-"] = name
            seen.setdefault(name, "")
            cur = name if m.group(1) is None else cur
            continue
        m = re.match(r"^Thread (\d+): *$", line)
        if m:
            cur = tmap.get(m.group(1))
            continue
        if cur is not None:
            seen[cur] = seen.get(cur, "") + line + "\n"
    compile_failed = ("error: could not compile" in out or "error[E" in out) and not seen
    for h in harnesses:
        ch = seen.get(h)
        if ch is None:
            results[h] = dict(status="UNDECIDED", seconds=dt, failed_checks=[], output_tail=out[-1500:], reason="harness did not run" + (" (compile error)" if compile_failed else ""))
            continue
        failed = re.findall(r"(?m)^Failed Checks: (.*)$", ch)
        m = re.search(r"VERIFICATION:- (SUCCESSFUL|FAILED)", ch)
        cov = re.search(r"(\d+) of (\d+) cover properties satisfied", ch)
        status = m.group(1) if m else "UNDECIDED"
        if status == "FAILED" and not failed:
            # "CBMC failed" (crash / out of memory): no verdict
            status = "UNDECIDED"
        unwind_fail = any("unwinding assertion" in f for f in failed)
        if status == "FAILED" and unwind_fail and all("unwinding assertion" in f for f in failed):
            status = "UNDECIDED"
        results[h] = dict(status=status, seconds=round(dt, 1), failed_checks=failed[:10], covers=(int(cov.group(1)), int(cov.group(2))) if cov else None, output_tail=ch[-1500:])
    return results


_harness_text = None


def _only_harness_asserts(failed):
    """True iff every failed check is an `assert!(expr)` written in one of the harness files (kani/*.rs)"""
    global _harness_text
    if _harness_text is None:
        import glob
        _harness_text = re.sub(r"\s+", "", "".join(open(f).read() for f in glob.glob(os.path.join(VERIF, "kani", "*.rs"))))
    if not failed:
        return False
    for f in failed:
        m = re.match(r"^assertion failed: (.+)$", f.strip())
        if not m or re.sub(r"\s+", "", m.group(1)) not in _harness_text:
            return False
    return True


def run_for_property(repo, work, pid, prop, tier, seed, out):
    """runs the Kani harnesses registered for the property (quick: prop['kani_quick'], thorough: + prop['kani_thorough'])"""
    hs = list(prop.get("kani_quick", []))
    if tier == "thorough":
        hs += prop.get("kani_thorough", [])
    if not hs:
        return
    res = run_harnesses(repo, work, hs, timeout=int(prop.get("kani_timeout", 3600)))
    cov = out.evidence["coverage"]
    klist = []
    out.kani_violations = getattr(out, "kani_violations", [])
    n_ok = 0
    for h in hs:
        r = res[h]
        bounded = prop.get("kani_bounded", {}).get(h)
        klist.append(dict(harness=h, status=r["status"], seconds=r["seconds"], covers=r.get("covers"), bounded=bounded, backend="kani 0.68 / cbmc 6.11"))
        if r["status"] == "SUCCESSFUL":
            if r.get("covers") and r["covers"][0] < r["covers"][1]:
                out.undecided.append("Kani harness %s: %d of %d cover properties unsatisfied (vacuity guard)" % (h, r["covers"][1] - r["covers"][0], r["covers"][1]))
            n_ok += 1
        elif r["status"] == "FAILED" and h in prop.get("kani_functional_harnesses", []) and _only_harness_asserts(r["failed_checks"]):
            # the harness also states functional by-products (e.g. header fields in RFC order); when only those fail and no
            # panic / overflow / bounds check of the real code does, this is not a verdict on a no-panic property
            out.undecided.append("Kani harness %s: only functional by-product assertions of the harness failed (%s); no panic, overflow or bounds check failed - not a verdict on %s" % (h, r["failed_checks"][0][:100], pid))
        elif r["status"] == "FAILED":
            name = "kani:%s::%s" % (h, (r["failed_checks"] or ["?"])[0][:120])
            import hashlib
            rp = os.path.join(VERIF, "replay", "%s-%s.json" % (pid, hashlib.sha1(name.encode()).hexdigest()[:10]))
            os.makedirs(os.path.dirname(rp), exist_ok=True)
            json.dump(dict(property=pid, obligation=name, function=h, kind="kani", backend="kani/cbmc", kani_output=r["output_tail"], inputs=None), open(rp, "w"), indent=1)
            out.kani_violations.append(dict(obligation=name, replay=rp, has_input=False))
        else:
            out.undecided.append("Kani harness %s undecided: %s" % (h, r.get("reason") or (r["failed_checks"] or ["no verdict"])[0]))
    cov["kani_harnesses"] = klist
    if not prop.get("verus", True):
        cov["obligations"] = cov.get("obligations", 0) + len(hs)
        cov["discharged"] = cov.get("discharged", 0) + n_ok
    else:
        cov["obligations"] = cov.get("obligations", 0) + len([h for h in hs if not prop.get("kani_bounded", {}).get(h)])
        cov["discharged"] = cov.get("discharged", 0) + len([h for h in hs if res[h]["status"] == "SUCCESSFUL" and not prop.get("kani_bounded", {}).get(h)])
        cov.setdefault("backends", {})["cbmc"] = len([h for h in hs if res[h]["status"] == "SUCCESSFUL" and not prop.get("kani_bounded", {}).get(h)])
    cov["bounded_parts"] = [dict(harness=h, bound=b) for h, b in prop.get("kani_bounded", {}).items() if h in hs]
