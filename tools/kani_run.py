"""Second back end (Kani/CBMC): harness modules appended to a scratch copy of /repo.  Filled in below."""


def run_for_property(repo, work, pid, prop, tier, seed, out):
    return
