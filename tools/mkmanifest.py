#!/usr/bin/env python3
"""Regenerates /verif/MANIFEST.json from the property table below (run by hand after editing)."""
import json
import os

VERIF = os.path.dirname(os.path.dirname(os.path.abspath(__file__)))
TECH = "contract-based deductive verification (Verus/Z3) of the real functions, extracted mechanically on every run"
TRUST = ("Trusted: Verus 0.2026.09.13 / Z3 / rustc; extraction rules R1-R12 (tools/extract.py, fidelity self-check every run); the spec "
         "library definitions in spec/*.rs; assume_specification for 7 core integer methods and 3 external_body contracts (R7), each "
         "backed by a complete Kani harness (thorough tier); type-invariant meta-argument for private-field types. ")

CLAIMED = {
    "C01": ("proof", "Unbounded proof on the real body of UtcDateTime::from_timespec: for every i64 instant and u32 nanosecond value the result is Ok exactly on "
            "[utc_min, utc_max] (derived from the calendar spec and proved equal to the documented constants) and then the fields are a valid "
            "date/time whose spec second count equals the input (injectivity lemma: the unique such fields); week_day / year_day proved against the "
            "calendar spec; overflow, bounds and termination of every function in the cone.", "5/C01", ""),
    "C02": ("proof", "UtcDateTime::new accepts exactly the valid tuples (minus i32::MAX-12-31T23:59:60), unix_time() equals the spec second count (second 60 = +60), "
            "both round trips proved as verified compositions of the real functions' contracts, strict monotonicity lemma; derived Ord checked by a complete Kani harness (thorough).", "5/C02", ""),
    "C03": ("proof", "TimeZoneRef::find_local_time_type against the relational spec lookup_ok / lookup_err for every table length, every i64 instant, with or without leap seconds and trailing rule "
            "(binary search proved with inductive invariants); DateTime::from_timespec(_and_local) give the UTC calendar fields of instant + offset.", "5/C03",
            "The rule evaluator's contract is assumed here and discharged under C04 (delegation). Types are compared by value (Verus has no reference identity). "),
    "C04": ("proof", "AlternateTime::find_local_time_type answers the dst half exactly when the instant lies in a DST period (exists-a-year spec, reduced to the neighbouring years by window/step lemmas), "
            "for every rule satisfying the constructor's invariant and every instant whose year is in [i32::MIN+2, i32::MAX-2], refusing exactly outside; all three day notations proved against declarative day specs. "
            "Known finding F2 (open): the contract is silent on end-first rules in a year where start and end coincide; the check replays its witness on every run.", "5/C04, 7",
            "Order stability of accepted rules (the constructor's postcondition) is proved under C11 for the Jn/n notations and is an assumed contract for pairs involving Mm.w.d (see C11). "),
    "C12": ("proof", "Both leap-second conversions against g_spec (count -> UTC, from the property text) and its upper adjoint; monotonicity, round trip outside deleted instants, inserted second shares the next UTC value, "
            "Galois connection (the search's instant for a transition is where the lookup switches) as lemmas. Found defect F1 (negative leap second), fixed in /repo b41fc29.", "5/C12, 7", ""),
    "C13": ("proof", "TimeZoneRef::check_inputs / new: Ok exactly for well-formed zones and each error names a violated clause (zone_verdict), incl. saturating arithmetic at i64/i32 extremes; "
            "LocalTimeType::new / TzAsciiStr::new accept exactly 3-7 characters of [A-Za-z0-9+-] and refuse i32::MIN; the owned constructor decides identically (proved).", "5/C13, S.1",
            "Rule evaluator delegated to C04 (so the trailing-rule clause inherits F2's carve-out). The owned TimeZone::new is under Verus contract too: its verdict is the borrowed check's verdict on a zone viewing the same data. "),
    "C14": ("proof", "Representation invariant secs(fields) = unix_time + ut_offset for every constructor under contract (new, from_timespec(_and_local), from_total_nanoseconds(_and_local), project) and for every date-time the local-time search produces (find_date_time, DateTime::find / find_n); projection keeps instant and nanoseconds; "
            "new refuses exactly invalid fields / out-of-range instants. PartialEq/PartialOrd by a complete Kani harness (thorough).", "5/C14",
            "Values built inside the local-time search ARE covered: the real find_date_time (extraction rules R8-R12) and DateTime::find are under contract: every date-time of every result pushed satisfies the invariant. Table lookup delegated to C03. "),
    "C16": ("proof", "total_nanoseconds_to_timespec is the floor split (s*1e9+ns = n, 0 <= ns < 1e9, refusal iff seconds leave i64), nanoseconds_since_unix_epoch the exact recombination, both round trips and "
            "from_total_nanoseconds = from_timespec of the pair as verified compositions.", "5/C16", ""),
}

CLAIMED.update({
    "C07": ("proof", "Every function under contract (the whole extracted file: ~130 real functions of utils/const_fns.rs, datetime/mod.rs, datetime/find.rs, timezone/mod.rs, timezone/rule.rs, parse/utils.rs, parse/tz_file.rs) is verified by Verus in exec mode, where each + - * / % cast, index, slice, unreachable!() and loop generates an obligation: no panic, no overflow with overflow checks on, no out-of-bounds, termination, for all inputs admitted by preconditions that are `true` or constructor-established type invariants. "
            "The local-time search (find_date_time with its lifted closure, DateTime::find / find_n, the result lists' push / new / data / count / is_exhaustive / unique / earliest / latest of the allocating list) is included, and of the TZif parser the cursor helpers read_exact / read_chunk_exact, parse_header, read_data_blocks and the control flow of parse_tz_file (for every input and all 32-bit header counts: no overflow in the block-size arithmetic, no out-of-bounds slicing; by-product: the six header counts decode big-endian in RFC 8536 order, the seven blocks are cut in file order with the RFC's sizes). NOT covered and excluded from the claim: the rest of both parsers (the decoder proper DataBlocks::parse - rendered external and unverified -, parse_footer, the TZ string parser), Display/format_date_time, TimeZone::{utc, fixed, from_tz_data, local, from_posix_tz} and TimeZoneSettings, TzAsciiStr::as_bytes/as_str, unique/earliest/latest of the result lists, allocation bounds, builds without overflow checks.", "5/C07",
            "This is a claim about the named function set only (coverage.functions_under_contract); the uncovered public operations are listed in coverage.extraction.not_under_contract. "),
    "C11": ("proof", "AlternateTime::new returns Ok exactly when both offsets are in (-25h, 26h), both times within +-7d and the three start/end relations never change sign over ALL integer years; each error kind names the first violated condition. Complete proof for all 9 notation pairs down to the calendar axioms: year classes and 21 witness years for Jn / n and mixed pairs; for Mm.w.d x Mm.w.d the finite core (all month / week / weekday / year-class combinations) is decided by computation inside Verus (assert by compute) and linked to the calendar by lemmas; the real check functions are proved equal to the decision procedures.", "5/C11, S.1",
            "Additionally trusted for this property: Verus's assert-by-compute interpreter (lemma_mm_compute_*). "),
})

CLAIMED.update({
    "C17": ("proof", "Unbounded proof (Verus) of the data-structure half for every buffer length: the real FoundDateTimeListRefMut::{new, push, data, count, is_exhaustive} and the allocating list's push against an abstract view; lemma: a fresh list over n slots after k pushes holds exactly the first min(n, k) results in order, counts k, is exhaustive iff n >= k and leaves every other slot untouched; the real DateTime::find_n is proved to return exactly that for the sequence of results pushed by the real list-generic find_date_time (whose contract is stated over the list trait's abstract view and therefore holds for both list types), DateTime::find to return that whole sequence. "
            "That the sequence is the same for both list types rests on parametricity (find_date_time can only call push; shape checked structurally on every run) - a stated meta-argument. unique/earliest/latest are only compared by a bounded concrete probe.", "S.13",
            "Residual assumptions: parametricity meta-argument; extraction rules R8-R12 (lambda lifting of the get_time closure, enumerate/zip loops desugared to while loops, three iterator expressions abstracted behind Kani-proved contracts, push arguments let-bound). unique/earliest/latest: bounded probe only. "),
})

SEARCH_NOTE = ("Scope of the proof: every zone without a DST rule, and zones with a DST (Alternate) rule inside rule_scope = the rule's start/end instants strictly interleave in every year AND both candidate instants lie inside the rule evaluator's year range. Outside rule_scope (exactly the territory of the open findings below) only BOUNDED layers speak (never counted as proved); they also run as a second layer everywhere: thorough tier Kani/CBMC on the real find_date_time (<= 3 transitions without / <= 2 with one leap-second record; rule-only zone with six symbolic interleaving instants) and, every tier, a bounded concrete oracle comparison through the public API. Open known findings F3 (C05: non-interleaving accepted rule yields a duplicate result) and F4 (C06: zero-length segment, e.g. permanent DST, reported as a gap) - both in the DST-rule branch - are carved out of the probes and replayed on every run. "
               "Trusted in addition: extraction rules R8-R12 (lambda lifting of the get_time closure, enumerate/zip loops desugared to while loops, three iterator expressions abstracted behind contracts proved by complete Kani harnesses, push arguments let-bound); Kani 0.68 / CBMC 6.11; the parametricity argument of C17 (the ghost log is the result list of both list types). ")
SEARCH_TECH = "contract-based deductive verification (Verus/Z3) of the real find_date_time, extracted mechanically on every run (zones without DST rule and zones with a strictly interleaving DST rule); bounded model checking (Kani/CBMC) and bounded oracle comparison as second layer and as stand-in outside the proof's scope"
CLAIMED.update({
    "C05": ("proof", "PROOF for every zone without a DST rule (single type, table only, table + fixed rule, fixed rule only; any table length, any leap-second table, arbitrary offsets) and for every zone with a strictly interleaving DST rule (with or without table; candidates inside the evaluator's year range), for every searched date-time: the real find_date_time's pushed results are sound (each valid result carries the searched fields, the forward lookup - C03's relational spec - answers its type at its instant, instant + offset = searched civil time), free of duplicates, and complete whenever the search returns Ok (every instant whose lookup answer shows the searched time is reported). BOUNDED layers only for DST rules outside that scope (known findings F3, F5; F2's class).", "S.13", SEARCH_NOTE, SEARCH_TECH),
    "C06": ("proof", "PROOF for every zone without a DST rule and for zones with a strictly interleaving DST rule, for every searched date-time: each skipped result of the real find_date_time is the gap of a real table transition (both date-times at the transition's UTC instant g(T), with the local time types before / after, C14 invariant, g(T)+a <= searched time < g(T)+b; the coverage-ending last transition of a rule-less zone opens no gap) or, in a DST-rule zone, of a start/end instant of the rule after the table; every such gap (for rule instants: of the years y-1..y+1 the search looks at) is reported when the search returns Ok, and all results ascend by instant; unique/earliest/latest of the allocating list are under contract too (unique present exactly for a single valid result and nothing else). Not proved: 'exactly once'; that no rule instant of a year outside y-1..y+1 can hold the searched time in its gap (window argument, not formalised); unique/earliest/latest of the allocation-free list (bounded probe). BOUNDED layers only for DST rules outside the scope (known finding F4).", "S.13", SEARCH_NOTE, SEARCH_TECH),
})


NA = {
    "C05": "find_date_time is outside Verus's subset (FnMut closure with captured cache, iterator adapters, impl Trait) and every bounded Kani formulation probed ran out of time/memory (DESIGN.md section 5 and 9); its ingredients are proved under C02/C03/C04/C12/C14",
    "C06": "same function as C05; not decidable with the available back ends",
    "C08": "the body of the TZif decoder (DataBlocks::parse: chunks_exact / zip / map / collect chains; parse_footer: str handling and the TZ string parser) is outside Verus's language subset and beyond CBMC's reach here; only the container level is under contract (as part of C07, DESIGN.md S.14: parse_header decodes the six counts in RFC order and accepts exactly well-formed headers, read_data_blocks cuts the seven blocks in file order with the RFC's sizes, parse_tz_file takes the 32-bit block for v1 with nothing after it and the 64-bit block after the second header for v2/v3 with the rest as footer) - the decoding of transitions, local time types, designations, leap records, indicator pairs and the footer is not decided; see DESIGN.md section 5 and S.14",
    "C09": "TZ string parser is outside Verus's subset (str parsing, closures) and a Kani run with 7 symbolic bytes did not finish in 21 min / 12 GB; see DESIGN.md section 5",
    "C10": "agreement with glibc / CPython on IANA data is not expressible as a contract on tz-rs code",
    "C15": "quantifies over schedules and absence of global state anywhere; not a function contract",
    "C18": "core::fmt is outside Verus and too heavy for CBMC here (10.5 min / 10 GB, incomplete)",
    "C19": "a build-configuration matrix is not a contract on one resolved function body",
    "C20": "a trace property over an injected effectful fn pointer on String/format!/Box<dyn Error> code",
}


def main():
    extra = json.load(open(os.path.join(VERIF, "contracts", "manifest_extra.json"))) if os.path.exists(os.path.join(VERIF, "contracts", "manifest_extra.json")) else {}
    claimed = dict(CLAIMED)
    claimed.update({k: tuple(v) for k, v in extra.get("claimed", {}).items()})
    na = dict(NA)
    na.update(extra.get("na", {}))
    for k in claimed:
        na.pop(k, None)
    checks = []
    for pid in sorted(claimed):
        cat, text, ref, note = claimed[pid][:4]
        tech = claimed[pid][4] if len(claimed[pid]) > 4 else TECH
        checks.append({
            "property_id": pid,
            "quick_cmd": "./check %s --tier quick" % pid,
            "thorough_cmd": "./check %s --tier thorough" % pid,
            "evidence_file": "evidence/%s.json" % pid,
            "replay_cmd_template": "./check replay {path}",
            "engine": "verus-extract",
            "level_claimed": {"category": cat, "text": text, "design_ref": "DESIGN.md section " + ref},
            "level_note": note + TRUST,
            "technique": tech,
        })
    all_ids = ["C%02d" % i for i in range(1, 21)]
    for pid in all_ids:
        if pid not in claimed and pid not in na:
            na[pid] = "check under construction (not claimed yet)"
    m = {
        "version": 1,
        "setup_cmd": "true",
        "hooks": {"guard": "tzrs_verif", "enable": "none needed: Kani harness modules are appended to a scratch copy of /repo under cfg(kani); the replay binary uses the public API of /repo as a path dependency; /repo itself carries no hooks",
                  "baseline_off_cmd": "cd /repo && cargo test --workspace --no-fail-fast --offline", "source_commits": [], "add_only": True},
        "engines": [
            {"name": "verus-extract", "path": "tools/", "serves_properties": sorted(claimed), "kind_free_text": "mechanical extraction of the real functions (tools/extract.py) + contract overlay (contracts/*.vc) + spec and lemma libraries, discharged by Verus/Z3; Kani/CBMC as second back end; replaykit/ replays counterexamples on the real code"},
        ],
        "checks": checks,
        "notes": "Every check is `./check <id>`; exit 0 held, exit 1 VIOLATION line, exit 2 UNDECIDED (tool limit / lost anchor; never an alarm). Fix commits in /repo: b41fc29 (F1, C12). Known findings: known_findings.json.",
        "not_applicable": [{"property_id": k, "reason": na[k]} for k in sorted(na)],
    }
    json.dump(m, open(os.path.join(VERIF, "MANIFEST.json"), "w"), indent=1)


if __name__ == "__main__":
    main()
