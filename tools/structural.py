"""Structural checks (token level) for shapes that a meta-argument relies on.  A changed shape is UNDECIDED, never a verdict."""
import os
import re
import rustlex as rl


def c17_shape(repo):
    """parametricity argument of C17: the search talks to its list only through `push`, and both entry points
    are the two-line delegation to the same find_date_time.  Returns (ok, facts, problems)."""
    problems, facts = [], []
    find = open(os.path.join(repo, "src", "datetime", "find.rs")).read()
    items = rl.parse_items(find)
    tr = [it for it in items if it.kind == "trait" and it.name == "DateTimeList"]
    if len(tr) != 1:
        problems.append("trait DateTimeList not found")
    else:
        body = find[tr[0].body_open + 1:tr[0].body_close]
        fns = re.findall(r"\bfn\s+(\w+)\s*\(([^)]*)\)\s*(->\s*[^;{]+)?", body)
        if [f[0] for f in fns] != ["push"] or fns[0][2].strip():
            problems.append("trait DateTimeList is no longer exactly `fn push(&mut self, FoundDateTimeKind)` without return value: %r" % (fns,))
        else:
            facts.append("trait DateTimeList has the single method push(&mut self, found_date_time: FoundDateTimeKind) with no return value")
    fd = [it for it in items if it.kind == "fn" and it.name == "find_date_time"]
    if len(fd) != 1:
        problems.append("find_date_time not found")
    else:
        text = find[fd[0].kw_start:fd[0].end]
        if not re.search(r"found_date_time_list:\s*&mut\s+impl\s+DateTimeList", text):
            problems.append("find_date_time no longer takes `&mut impl DateTimeList`")
        uses = re.findall(r"found_date_time_list\s*\.\s*(\w+)", text)
        if set(uses) - {"push"}:
            problems.append("find_date_time uses the list through something other than push: %s" % sorted(set(uses)))
        else:
            facts.append("find_date_time touches its list argument only through %d push calls" % len(uses))
    mod = open(os.path.join(repo, "src", "datetime", "mod.rs")).read()
    for name, ctor in (("find", r"FoundDateTimeList::default\(\)"), ("find_n", r"FoundDateTimeListRefMut::new\(buf\)")):
        m = re.search(r"pub fn %s(?:<'a>)?\((.*?)\)\s*->\s*Result<[^{]+\{(.*?)\n    \}" % name, mod, re.S)
        if not m:
            problems.append("DateTime::%s not found" % name)
            continue
        body = re.sub(r"\s+", " ", m.group(2)).strip()
        want = r"^let mut found_date_time_list = %s; find_date_time\(&mut found_date_time_list, year, month, month_day, hour, minute, second, nanoseconds, time_zone_ref\)\?; Ok\(found_date_time_list\)$" % ctor
        if not re.match(want, body):
            problems.append("DateTime::%s is no longer the plain delegation to find_date_time: %r" % (name, body[:200]))
        else:
            facts.append("DateTime::%s = construct list; find_date_time(&mut list, <arguments unchanged>)?; Ok(list)" % name)
    return (not problems), facts, problems


def owned_zone_shape(repo):
    """C13 'the owned and the borrowed constructor decide identically': TimeZone::new must be the plain delegation to the
    borrowed check (which is under Verus contract), and the owned lookup the plain delegation to the borrowed one."""
    problems, facts = [], []
    src = open(os.path.join(repo, "src", "timezone", "mod.rs")).read()
    def body_of(sig_re):
        m = re.search(sig_re + r"[^{]*\{(.*?)\n    \}", src, re.S)
        return re.sub(r"\s+", " ", m.group(1)).strip() if m else None
    b = body_of(r"impl TimeZone \{.*?pub fn new\(")
    want = r"^TimeZoneRef::new_unchecked\(&transitions, &local_time_types, &leap_seconds, &extra_rule\)\.check_inputs\(\)\?; Ok\(Self \{ transitions, local_time_types, leap_seconds, extra_rule \}\)$"
    if b is None or not re.match(want, b):
        problems.append("TimeZone::new is no longer `TimeZoneRef::new_unchecked(&..).check_inputs()?; Ok(Self {..})`: %r" % (b or "")[:200])
    else:
        facts.append("TimeZone::new = TimeZoneRef::new_unchecked(&transitions, &local_time_types, &leap_seconds, &extra_rule).check_inputs()?; Ok(Self { .. })")
    b = body_of(r"pub fn as_ref\(&self\) -> TimeZoneRef<'_>")
    if b is None or not re.match(r"^TimeZoneRef::new_unchecked\(&self\.transitions, &self\.local_time_types, &self\.leap_seconds, &self\.extra_rule\)$", b):
        problems.append("TimeZone::as_ref is no longer the plain re-borrow: %r" % (b or "")[:200])
    else:
        facts.append("TimeZone::as_ref = TimeZoneRef::new_unchecked(&self.transitions, &self.local_time_types, &self.leap_seconds, &self.extra_rule)")
    b = body_of(r"pub fn find_local_time_type\(&self, unix_time: i64\) -> Result<&LocalTimeType, TzError>")
    if b is None or not re.match(r"^self\.as_ref\(\)\.find_local_time_type\(unix_time\)$", b):
        problems.append("TimeZone::find_local_time_type is no longer `self.as_ref().find_local_time_type(unix_time)`: %r" % (b or "")[:200])
    else:
        facts.append("TimeZone::find_local_time_type = self.as_ref().find_local_time_type(unix_time)")
    return (not problems), facts, problems
