#!/usr/bin/env python3
"""dev helper: generate the cone of the given roots, run Verus, print per-function results"""
import sys, os, json, subprocess, time
sys.path.insert(0, os.path.dirname(os.path.abspath(__file__)))
import extract

def main():
    args = sys.argv[1:]
    rlimit = "60"
    if args and args[0].startswith("--rlimit="):
        rlimit = args.pop(0).split("=")[1]
    out = "/var/tmp/vt/raw.rs"
    ex = extract.Extraction(os.environ.get("REPO", "/repo"), prop=os.environ.get("PROP") or None)
    lib = extract.Library()
    if args:
        roots = [k for k in ex.functions if any(k.endswith(p) for p in args)]
        lem = [a for a in args if a in lib.by_name]
    else:
        roots, lem = list(ex.functions), [it[0] for it in lib.items if it[1] == "proof"]
    deleg = [k for k in ex.functions if any(k.endswith(d) for d in os.environ.get("DELEGATE", "").split(",") if d)]
    fns, items = extract.cone(ex, lib, roots, lem, stop_at=deleg)
    for k in sorted(fns):
        if ex.functions[k].get("broken"):
            print("BROKEN OVERLAY:", ex.functions[k]["broken"])
    open(out, "w").write(ex.render(keep_fns=fns, lib_items=items, canary=bool(os.environ.get("CANARY")), delegated=set(deleg))[0])
    t0 = time.time()
    p = subprocess.run(["verus", out, "--multiple-errors", "5", "--triggers-mode", "silent", "--rlimit", rlimit, "--output-json", "--time", "--num-threads", "16"] + (["--verify-root", "--verify-function", os.environ["VFUN"]] if os.environ.get("VFUN") else []),
                       capture_output=True, text=True, cwd="/var/tmp/vt")
    dt = time.time() - t0
    try:
        d = json.loads(p.stdout)
    except Exception:
        print(p.stdout[-3000:])
        print(p.stderr[-6000:])
        return 2
    vr = d["verification-results"]
    rows = []
    for m in d.get("times-ms", {}).get("smt", {}).get("smt-run-module-times", []):
        for f in m.get("function-breakdown", []):
            rows.append((f["time-micros"] / 1e6, f["rlimit"], f["function"], f["success"]))
    rows.sort(reverse=True)
    for r in rows[:12]:
        print("%7.2fs rlimit=%-10d %s %s" % (r[0], r[1], "ok " if r[3] else "FAIL", r[2]))
    print("fns=%d lib=%d verified=%s errors=%s wall=%.1fs" % (len(fns), len(items), vr.get("verified"), vr.get("errors"), dt))
    if not vr.get("success"):
        import re
        err = p.stderr
        # print compact errors
        lines = err.split("\n")
        keep = []
        for i, l in enumerate(lines):
            if l.startswith("error") or l.lstrip().startswith("-->") or re.match(r"^\s*\d+ \|", l) or "^^^" in l or l.startswith("note") or l.startswith("warning"):
                keep.append(l)
        print("\n".join(keep[:int(os.environ.get("NERR", "80"))]))
        return 1
    return 0

sys.exit(main())
