#!/usr/bin/env python3
"""Markdown table of the seeded changes and how the checks decided them (from seeded/RESULTS.txt + replay files)."""
import glob, json, os, re
V = os.path.dirname(os.path.dirname(os.path.abspath(__file__)))
res = {}
for line in open(os.path.join(V, "seeded", "RESULTS.txt")):
    m = re.match(r"^(C\d+b?-\d+) check=(C\d+) exit=(\d)(.*)$", line.strip())
    if m:
        res[m.group(1)] = (m.group(2), int(m.group(3)), m.group(4))
rows = []
for d in sorted(glob.glob(os.path.join(V, "seeded", "C*-*"))):
    sid = os.path.basename(d)
    meta = json.load(open(os.path.join(d, "meta.json")))
    chk, rc, rest = res.get(sid, ("?", -1, ""))
    obl = []
    for rp in re.findall(r"replay=(\S+)", rest):
        try:
            doc = json.load(open(rp))
            how = "replayed input" if doc.get("inputs") else "no-failing-input-found"
            obl.append("%s (%s; %s)" % (doc.get("obligation", "?")[:90], doc.get("backend", "?").split(" ")[0], how))
        except Exception:
            pass
    verdict = {1: "VIOLATION", 0: "MISSED", 2: "UNDECIDED"}.get(rc, "?")
    summ = re.sub(r"\s+", " ", meta.get("summary", "")).replace("|", "/")[:170]
    rows.append("| %s | %s | %s | %s |" % (sid, summ, verdict, "; ".join(dict.fromkeys(obl))[:260].replace("|", "/")))
print("| seed | change (sub-agent's summary) | `./check %s` | failing obligation(s) |" % "<property>")
print("|---|---|---|---|")
print("\n".join(rows))
