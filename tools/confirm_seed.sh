#!/bin/bash
# usage: confirm_seed.sh <worktree> <n> <dest-id>   -- confirms a sub-agent's seeded change in its scratch worktree and stores it under /verif/seeded/<dest-id>/
set -u
WT=$1; N=$2; DEST=/verif/seeded/$3
export CARGO_TARGET_DIR=$WT/target CARGO_NET_OFFLINE=true
cd $WT || exit 2
git checkout -q -- src 2>/dev/null
git checkout -q --detach $(git -C /repo rev-parse HEAD) 2>/dev/null
log=""
run() { log="$log\n\$ $1 -> $2"; }
cargo run --offline -q --example verif_demo_$N >/dev/null 2>&1; rc_pristine=$?
run "pristine: cargo run --example verif_demo_$N" "exit $rc_pristine"
if ! git apply --check _seeded/$N/patch.diff 2>/dev/null; then
  if git apply --3way _seeded/$N/patch.diff 2>/dev/null; then git reset -q; else echo "SEED $3: patch does not apply to current HEAD"; git checkout -q -- src; exit 1; fi
else
  git apply _seeded/$N/patch.diff
fi
tests=$(cargo test --workspace --offline 2>&1 | grep -E "^test result" | head -1)
run "patched: cargo test --workspace --offline" "$tests"
cargo run --offline -q --example verif_demo_$N >/dev/null 2>&1; rc_patched=$?
run "patched: cargo run --example verif_demo_$N" "exit $rc_patched"
git diff -- src > /tmp/seed_patch_$$.diff
git checkout -q -- src
ok=1
[ $rc_pristine -eq 0 ] || ok=0
[ $rc_patched -ne 0 ] || ok=0
echo "$tests" | grep -q "42 passed; 0 failed" || ok=0
if [ $ok -eq 1 ]; then
  mkdir -p $DEST
  cp /tmp/seed_patch_$$.diff $DEST/patch.diff
  cp _seeded/$N/demo.rs $DEST/demo.rs
  python3 - "$WT/_seeded/$N/meta.json" "$DEST/meta.json" "$(echo -e "$log")" <<'PY'
import json,sys
m=json.load(open(sys.argv[1]))
m["confirmed_by_main_session"]=sys.argv[3].strip().split("\n")
json.dump(m,open(sys.argv[2],"w"),indent=1)
PY
  echo "SEED $3: confirmed (pristine demo exit 0, patched demo exit $rc_patched, $tests)"
else
  echo "SEED $3: NOT confirmed (pristine=$rc_pristine patched=$rc_patched tests='$tests')"
fi
rm -f /tmp/seed_patch_$$.diff
