import sys; sys.path.insert(0,'/verif/tools')
import extract
ex=extract.Extraction('/repo')
lib=extract.Library()
roots=[k for k in ex.functions if any(k.endswith(p) for p in sys.argv[2:])] if len(sys.argv)>2 else list(ex.functions)
fns,items=extract.cone(ex,lib,roots,[l for l in sys.argv[2:] if l.startswith('lemma_') or l.startswith('prop_')])
print(len(fns),'fns',len(items),'lib items', file=sys.stderr)
open(sys.argv[1],'w').write(ex.render(keep_fns=fns,lib_items=[i[2] for i in items]))
