#!/bin/bash
# usage: seedtest.sh [seed-id ...]   -- applies each seeded change to /repo, runs the check(s) of its property, reverts.
# Results are appended to /verif/seeded/RESULTS.txt
cd /verif
export VERIF_EVIDENCE_DIR=/var/tmp/tzrs-verif-evidence-scratch
ids=("$@"); [ ${#ids[@]} -eq 0 ] && ids=($(ls seeded | grep -E '^C[0-9]+b?-[0-9]+$'))
if [ -n "$(git -C /repo status --porcelain -- src)" ]; then echo "/repo/src is not clean"; exit 2; fi
for id in "${ids[@]}"; do
  prop=${id:0:3}
  props=${SEED_PROPS:-$prop}
  git -C /repo apply /verif/seeded/$id/patch.diff || { echo "$id: patch does not apply"; continue; }
  for p in $props; do
    out=$(./check $p 2>&1); rc=$?
    line=$(echo "$out" | grep -E "^(VIOLATION|UNDECIDED|OK)" | head -2 | tr '\n' ' ')
    echo "$id check=$p exit=$rc $line" | cut -c1-400 | tee -a seeded/RESULTS.txt
  done
  git -C /repo checkout -- .
done
