
// ==== appended by /verif/tools/kani_run.py (scratch copy only; never committed to /repo) ====
// Rule R10 of the extraction replaces three iterator-adapter expressions of find_date_time by calls to helpers whose
// contracts Verus assumes (spec/50_find.rs).  Each harness below evaluates the ORIGINAL expression, copied verbatim
// (the extraction refuses to run unless exactly this text occurs in find_date_time), on an arbitrary [i64; 7] and
// checks the helper's contract.  Fixed-size arrays of machine integers, every loop bounded by 7: complete, not bounded.
#[cfg(kani)]
mod __verif_kani_find_abstractions {
    #[cfg(feature = "alloc")]
    #[kani::proof]
    fn default_list_is_empty() {
        assert!(super::FoundDateTimeList::default().0.len() == 0);
    }

    #[kani::proof]
    #[kani::unwind(9)]
    fn windows2_all_le_contract() {
        let additional_transition_times: [i64; 7] = kani::any();
        let sorted = additional_transition_times.windows(2).all(|x| x[0] <= x[1]);
        let a = &additional_transition_times;
        assert!(sorted == (a[0] <= a[1] && a[1] <= a[2] && a[2] <= a[3] && a[3] <= a[4] && a[4] <= a[5] && a[5] <= a[6]));
    }

    #[kani::proof]
    #[kani::unwind(9)]
    fn swap_pairs_contract() {
        let old: [i64; 7] = kani::any();
        let mut additional_transition_times = old;
        for chunk in additional_transition_times.chunks_exact_mut(2) {
            chunk.swap(0, 1);
        }
        let a = &additional_transition_times;
        assert!(a[0] == old[1] && a[1] == old[0] && a[2] == old[3] && a[3] == old[2] && a[4] == old[5] && a[5] == old[4] && a[6] == old[6]);
    }

    #[kani::proof]
    #[kani::unwind(9)]
    fn position_gt_contract() {
        let additional_transition_times: [i64; 7] = kani::any();
        let previous_transition_unix_time: i64 = kani::any();
        let r = additional_transition_times.iter().position(|&unix_time| previous_transition_unix_time < unix_time);
        match r {
            Some(k) => {
                assert!(k < 7 && previous_transition_unix_time < additional_transition_times[k]);
                let mut i = 0;
                while i < k {
                    assert!(additional_transition_times[i] <= previous_transition_unix_time);
                    i += 1;
                }
            }
            None => {
                let mut i = 0;
                while i < 7 {
                    assert!(additional_transition_times[i] <= previous_transition_unix_time);
                    i += 1;
                }
            }
        }
    }
}
