
// ==== appended by /verif/tools/kani_run.py (scratch copy only; never committed to /repo) ====
#[cfg(kani)]
mod __verif_kani {
    use super::*;

    /// R7: contract of TzAsciiStr::equal assumed by Verus, proved here on the real body for all 2^128 inputs
    #[kani::proof]
    #[kani::unwind(10)]
    fn equal_contract() {
        let a = TzAsciiStr { bytes: kani::any() };
        let b = TzAsciiStr { bytes: kani::any() };
        // the type invariant established by TzAsciiStr::new (Verus: tzstr_wf) is needed by bodies that go through as_bytes()
        kani::assume(3 <= a.bytes[0] && a.bytes[0] <= 7);
        kani::assume(3 <= b.bytes[0] && b.bytes[0] <= 7);
        let mut i = 1;
        while i < 8 {
            if i > a.bytes[0] as usize { kani::assume(a.bytes[i] == 0); }
            if i > b.bytes[0] as usize { kani::assume(b.bytes[i] == 0); }
            i += 1;
        }
        let r = a.equal(&b);
        assert!(r == (a.bytes == b.bytes));
        kani::cover!(r);
        kani::cover!(!r);
    }

    /// R7: contract of TimeZoneRef::utc (const block)
    #[kani::proof]
    fn utc_contract() {
        let z = TimeZoneRef::utc();
        assert!(z.transitions.is_empty());
        assert!(z.leap_seconds.is_empty());
        assert!(z.extra_rule.is_none());
        assert!(z.local_time_types.len() == 1);
        let t = &z.local_time_types[0];
        assert!(t.ut_offset == 0 && !t.is_dst && t.time_zone_designation.is_none());
    }
}

#[cfg(kani)]
impl<'a> TimeZoneRef<'a> {
    /// (verification only) the unchecked constructor, for harnesses that establish well-formedness by assumption
    #[allow(dead_code)]
    pub(crate) const fn new_unchecked_for_verif(
        transitions: &'a [Transition],
        local_time_types: &'a [LocalTimeType],
        leap_seconds: &'a [LeapSecond],
        extra_rule: &'a Option<TransitionRule>,
    ) -> Self {
        Self::new_unchecked(transitions, local_time_types, leap_seconds, extra_rule)
    }
}
