
// ==== appended by /verif/tools/kani_run.py (scratch copy only; never committed to /repo) ====
#[cfg(kani)]
impl AlternateTime {
    /// (verification only) a rule value with the given parts, for harnesses that establish the constructor's invariant by assumption
    #[allow(dead_code)]
    pub(crate) const fn new_unchecked_for_verif(std: LocalTimeType, dst: LocalTimeType, dst_start: RuleDay, dst_start_time: i32, dst_end: RuleDay, dst_end_time: i32) -> Self {
        Self { std, dst, dst_start, dst_start_time, dst_end, dst_end_time }
    }
}
