
// ==== C07 (bounded): the whole version-1 TZif parser on every input of up to 64 bytes ====
#[cfg(kani)]
mod __verif_kani_v1 {
    use super::*;

    /// BOUNDED (input length <= 64 bytes, version byte 0): parse_tz_file never panics, overflows or indexes out of bounds;
    /// it returns Ok only if the input is exactly header + the seven data blocks the header announces
    #[kani::proof]
    #[kani::unwind(66)]
    fn parse_tz_file_v1_no_panic() {
        let buf: [u8; 64] = kani::any();
        let len: usize = kani::any();
        kani::assume(len <= 64);
        kani::assume(buf[4] == 0);
        let r = parse_tz_file(&buf[..len]);
        let ok = r.is_ok();
        if let Ok(tz) = r {
            let z = tz.as_ref();
            let be = |i: usize| u32::from_be_bytes([buf[i], buf[i + 1], buf[i + 2], buf[i + 3]]) as usize;
            let (isut, isstd, leap, time, typ, chr) = (be(20), be(24), be(28), be(32), be(36), be(40));
            assert!(len == 44 + time * 5 + typ * 6 + chr + leap * 8 + isstd + isut);
            assert!(z.transitions().len() == time && z.local_time_types().len() == typ && z.leap_seconds().len() == leap);
            assert!(z.extra_rule().is_none());
        }
        kani::cover!(ok);
    }
}
