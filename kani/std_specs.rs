
// ==== appended by /verif/tools/kani_run.py (scratch copy only; never committed to /repo) ====
// Cross-checks of the assume_specification clauses in /verif/spec/00_std.rs against the real core methods.
// Loop-free, full operand domain: complete.  Quotient/remainder facts are stated with multiplication so that CBMC
// does not need a second wide divider on the specification side.
#[cfg(kani)]
mod __verif_kani_std {
    // Symbolic 64-bit divisors are out of CBMC's reach (20 min without a verdict, measured); the crate divides by
    // the constants 7 (days per week), 12 (months per year) and 10^9 only, so the specs are cross-checked for those
    // divisors and remain assumed for others.
    macro_rules! euclid {
        ($name:ident, $t:ty, $w:ty, $d:expr) => {
            #[kani::proof]
            fn $name() {
                let x: $t = kani::any();
                let y: $t = $d;
                let q = x.div_euclid(y) as $w;
                let r = x.rem_euclid(y) as $w;
                // Euclidean division: x = q*y + r with 0 <= r < |y| (this is Verus's int `/` and `%`)
                assert!(q * (y as $w) + r == x as $w);
                assert!(0 <= r && r < y as $w);
            }
        };
    }
    euclid!(std_spec_euclid_i32_by_7, i32, i64, 7);
    euclid!(std_spec_euclid_i64_by_7, i64, i128, 7);
    euclid!(std_spec_euclid_i64_by_12, i64, i128, 12);

    /// i128 by 10^9, main region (q*y does not underflow): x = q*y + r, 0 <= r < y, stated with checked arithmetic
    #[kani::proof]
    fn std_spec_euclid_i128_by_1e9() {
        let x: i128 = kani::any();
        let y: i128 = 1_000_000_000;
        kani::assume(x >= i128::MIN + y);
        let q = x.div_euclid(y);
        let r = x.rem_euclid(y);
        assert!(0 <= r && r < y);
        assert!(q.checked_mul(y).and_then(|v| v.checked_add(r)) == Some(x));
    }

    /// i128 by 10^9, the lowest 10^9 values: the quotient is one of two constants (computed independently:
    /// floor(-2^127 / 10^9) = -170141183460469231731687303716), the remainder follows by subtraction
    #[kani::proof]
    fn std_spec_euclid_i128_by_1e9_low() {
        let x: i128 = kani::any();
        let y: i128 = 1_000_000_000;
        kani::assume(x < i128::MIN + y);
        let q = x.div_euclid(y);
        let r = x.rem_euclid(y);
        let q0: i128 = -170141183460469231731687303716;
        let r0: i128 = 115894272; // i128::MIN - q0 * y
        let b: i128 = -170141183460469231731687303715000000000; // (q0 + 1) * y
        if x < b {
            assert!(q == q0 && r == (x - i128::MIN) + r0);
        } else {
            assert!(q == q0 + 1 && r == x - b);
        }
    }

    #[kani::proof]
    fn std_spec_abs() {
        let x: i64 = kani::any();
        kani::assume(x != i64::MIN);
        assert!(x.abs() as i128 == if x < 0 { -(x as i128) } else { x as i128 });
        let y: i32 = kani::any();
        kani::assume(y != i32::MIN);
        assert!(y.abs() as i64 == if y < 0 { -(y as i64) } else { y as i64 });
        let z: i32 = kani::any();
        assert!(z.saturating_abs() as i64 == if z == i32::MIN { i32::MAX as i64 } else if z < 0 { -(z as i64) } else { z as i64 });
        assert!(z.wrapping_abs() as i64 == if z == i32::MIN { i32::MIN as i64 } else if z < 0 { -(z as i64) } else { z as i64 });
        assert!(z.unsigned_abs() as i64 == if z < 0 { -(z as i64) } else { z as i64 });
        let w: i64 = kani::any();
        assert!(w.wrapping_abs() as i128 == if w == i64::MIN { i64::MIN as i128 } else if w < 0 { -(w as i128) } else { w as i128 });
        assert!(w.unsigned_abs() as i128 == if w < 0 { -(w as i128) } else { w as i128 });
        assert!(w.saturating_abs() as i128 == if w == i64::MIN { i64::MAX as i128 } else if w < 0 { -(w as i128) } else { w as i128 });
    }

    #[kani::proof]
    fn std_spec_saturating() {
        let (a, b): (i64, i64) = (kani::any(), kani::any());
        let d = a as i128 - b as i128;
        let s = a as i128 + b as i128;
        let clamp64 = |v: i128| if v > i64::MAX as i128 { i64::MAX as i128 } else if v < i64::MIN as i128 { i64::MIN as i128 } else { v };
        assert!(a.saturating_sub(b) as i128 == clamp64(d));
        assert!(a.saturating_add(b) as i128 == clamp64(s));
        let (c, e): (i32, i32) = (kani::any(), kani::any());
        let clamp32 = |v: i64| if v > i32::MAX as i64 { i32::MAX as i64 } else if v < i32::MIN as i64 { i32::MIN as i64 } else { v };
        assert!(c.saturating_sub(e) as i64 == clamp32(c as i64 - e as i64));
        assert!(c.saturating_add(e) as i64 == clamp32(c as i64 + e as i64));
    }
}
