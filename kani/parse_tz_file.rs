
// ==== appended by /verif/tools/kani_run.py (scratch copy only; never committed to /repo) ====
#[cfg(kani)]
mod __verif_kani {
    use super::*;

    fn be(buf: &[u8; 48], i: usize) -> usize {
        u32::from_be_bytes([buf[i], buf[i + 1], buf[i + 2], buf[i + 3]]) as usize
    }

    /// C08 fragment / C07: parse_header on EVERY input of up to 48 bytes (it reads at most 44): never panics;
    /// Ok exactly for "TZif", version byte 0x00 / '2' / '3', 15 reserved bytes, six big-endian counts in RFC 8536 order
    /// (isutcnt, isstdcnt, leapcnt, timecnt, typecnt, charcnt) with typecnt, charcnt != 0 and the two indicator counts
    /// 0 or typecnt; then the fields are those counts and exactly 44 bytes are consumed.  Loop-free: complete.
    #[kani::proof]
    #[kani::unwind(50)]
    fn parse_header_contract() {
        let buf: [u8; 48] = kani::any();
        let len: usize = kani::any();
        kani::assume(len <= 48);
        let mut cursor: Cursor = &buf[..len];
        let r = parse_header(&mut cursor);
        let magic_ok = len >= 4 && buf[0] == b'T' && buf[1] == b'Z' && buf[2] == b'i' && buf[3] == b'f';
        let version_ok = len >= 5 && (buf[4] == 0x00 || buf[4] == 0x32 || buf[4] == 0x33);
        let (isut, isstd, leap, time, typ, chr) = (be(&buf, 20), be(&buf, 24), be(&buf, 28), be(&buf, 32), be(&buf, 36), be(&buf, 40));
        let counts_ok = typ != 0 && chr != 0 && (isut == 0 || isut == typ) && (isstd == 0 || isstd == typ);
        let well_formed = magic_ok && version_ok && len >= 44 && counts_ok;
        match r {
            Ok(h) => {
                assert!(well_formed);
                assert!(matches!((h.version, buf[4]), (Version::V1, 0x00) | (Version::V2, 0x32) | (Version::V3, 0x33)));
                assert!(h.ut_local_count == isut && h.std_wall_count == isstd && h.leap_count == leap);
                assert!(h.transition_count == time && h.type_count == typ && h.char_count == chr);
                assert!(cursor.len() == len - 44);
            }
            Err(e) => {
                assert!(!well_formed);
                match e {
                    TzFileError::InvalidMagicNumber => assert!(len >= 4 && !magic_ok),
                    TzFileError::UnsupportedTzFileVersion => assert!(magic_ok && len >= 5 && !version_ok),
                    TzFileError::InvalidHeader => assert!(magic_ok && version_ok && len >= 44 && !counts_ok),
                    TzFileError::ParseData(_) => assert!(len < 44),
                    _ => assert!(false),
                }
            }
        }
        kani::cover!(well_formed);
        kani::cover!(len >= 44 && magic_ok && version_ok && !counts_ok);
    }

    fn any_count() -> usize {
        let c: u32 = kani::any();
        c as usize
    }

    /// C07 ("hostile header counts up to 2^32-1"): read_data_blocks with ARBITRARY 32-bit counts on any remaining input
    /// of up to 64 bytes: no overflow in the block-size arithmetic, no panic; Ok only if the input really holds all seven
    /// blocks with the sizes RFC 8536 prescribes, in order.  Loop-free: complete in the counts, bounded in the input length.
    #[kani::proof]
    #[kani::unwind(70)]
    fn read_data_blocks_no_overflow() {
        let header = Header {
            version: Version::V2,
            ut_local_count: any_count(),
            std_wall_count: any_count(),
            leap_count: any_count(),
            transition_count: any_count(),
            type_count: any_count(),
            char_count: any_count(),
        };
        let buf: [u8; 64] = kani::any();
        let len: usize = kani::any();
        kani::assume(len <= 64);
        let wide: bool = kani::any();
        let mut cursor: Cursor = &buf[..len];
        let ts: u128 = if wide { 8 } else { 4 };
        let total: u128 = header.transition_count as u128 * ts + header.transition_count as u128 + header.type_count as u128 * 6
            + header.char_count as u128 + header.leap_count as u128 * (ts + 4) + header.std_wall_count as u128 + header.ut_local_count as u128;
        if wide {
            match read_data_blocks::<8>(&mut cursor, &header) {
                Ok(b) => {
                    assert!(total <= len as u128 && cursor.len() as u128 == len as u128 - total);
                    assert!(b.transition_times.len() == header.transition_count * 8 && b.transition_types.len() == header.transition_count);
                    assert!(b.local_time_types.len() == header.type_count * 6 && b.time_zone_designations.len() == header.char_count);
                    assert!(b.leap_seconds.len() == header.leap_count * 12 && b.std_walls.len() == header.std_wall_count && b.ut_locals.len() == header.ut_local_count);
                }
                Err(_) => assert!(total > len as u128),
            }
        } else {
            match read_data_blocks::<4>(&mut cursor, &header) {
                Ok(b) => {
                    assert!(total <= len as u128 && cursor.len() as u128 == len as u128 - total);
                    assert!(b.transition_times.len() == header.transition_count * 4 && b.leap_seconds.len() == header.leap_count * 8);
                }
                Err(_) => assert!(total > len as u128),
            }
        }
        kani::cover!(total <= len as u128 && total > 0);
    }
}
