
// ==== appended by /verif/tools/kani_run.py (scratch copy only; never committed to /repo) ====
#[cfg(kani)]
impl DateTime {
    /// (verification only) a DateTime with arbitrary, unrelated fields: the buffer logic of C17 must not depend on them
    #[allow(dead_code)]
    pub(crate) fn from_timespec_and_local_unchecked_for_verif(unix_time: i64, nanoseconds: u32, fields: (i32, u8, u8, u8, u8, u8), local_time_type: LocalTimeType) -> Self {
        Self { year: fields.0, month: fields.1, month_day: fields.2, hour: fields.3, minute: fields.4, second: fields.5, local_time_type, unix_time, nanoseconds }
    }
}

#[cfg(kani)]
mod __verif_kani {
    use super::*;

    fn any_utc() -> UtcDateTime {
        UtcDateTime { year: kani::any(), month: kani::any(), month_day: kani::any(), hour: kani::any(), minute: kani::any(), second: kani::any(), nanoseconds: kani::any() }
    }

    /// C02: the derived Ord on UtcDateTime is the lexicographic order of (year, month, day, hour, minute, second, nanoseconds)
    /// - full domain of both values, loop-free: complete.  (Verus proves that this order agrees with unix_time.)
    #[kani::proof]
    fn utc_ord_is_lexicographic() {
        let a = any_utc();
        let b = any_utc();
        let ka = (a.year, a.month, a.month_day, a.hour, a.minute, a.second, a.nanoseconds);
        let kb = (b.year, b.month, b.month_day, b.hour, b.minute, b.second, b.nanoseconds);
        assert!(a.cmp(&b) == ka.cmp(&kb));
        assert!(a.partial_cmp(&b) == Some(ka.cmp(&kb)));
        assert!((a == b) == (ka == kb));
        kani::cover!(a < b);
        kani::cover!(a == b);
    }

    fn any_dt() -> DateTime {
        let lt = match LocalTimeType::with_ut_offset(kani::any()) {
            Ok(lt) => lt,
            Err(_) => LocalTimeType::utc(),
        };
        DateTime { year: kani::any(), month: kani::any(), month_day: kani::any(), hour: kani::any(), minute: kani::any(), second: kani::any(), local_time_type: lt, unix_time: kani::any(), nanoseconds: kani::any() }
    }

    /// C14: equality and ordering of zoned date-times depend only on (unix_time, nanoseconds) - full domain, complete
    #[kani::proof]
    fn datetime_eq_ord_by_instant() {
        let a = any_dt();
        let b = any_dt();
        let ka = (a.unix_time, a.nanoseconds);
        let kb = (b.unix_time, b.nanoseconds);
        assert!((a == b) == (ka == kb));
        assert!(a.partial_cmp(&b) == Some(ka.cmp(&kb)));
        kani::cover!(a == b && a.year != b.year);
        kani::cover!(a < b);
    }
}
