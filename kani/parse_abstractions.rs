
// ==== appended by /verif/tools/kani_run.py (scratch copy only; never committed to /repo) ====
// Rule R10 replaces two expressions of parse_header by calls to helpers whose contracts Verus assumes (spec/60_parse.rs);
// the harnesses evaluate the ORIGINAL expressions (the extraction refuses to run unless exactly that text occurs).
#[cfg(kani)]
mod __verif_kani_parse_abstractions {
    /// `u32::from_be_bytes(*x)` for every [u8; 4]: complete
    #[kani::proof]
    fn be_u32_contract() {
        let b: [u8; 4] = kani::any();
        let x: &[u8; 4] = &b;
        let r = u32::from_be_bytes(*x);
        assert!(r as u64 == ((b[0] as u64 * 256 + b[1] as u64) * 256 + b[2] as u64) * 256 + b[3] as u64);
    }

    /// `magic != *b"TZif"` for every slice of up to 6 bytes (read_exact(cursor, 4) returns exactly 4): complete for its use
    #[kani::proof]
    #[kani::unwind(8)]
    fn is_tzif_magic_contract() {
        let buf: [u8; 6] = kani::any();
        let n: usize = kani::any();
        kani::assume(n <= 6);
        let magic: &[u8] = &buf[..n];
        let ne = magic != *b"TZif";
        let want = n == 4 && buf[0] == 0x54 && buf[1] == 0x5a && buf[2] == 0x69 && buf[3] == 0x66;
        assert!(!ne == want);
    }

    /// <[u8]>::split_first_chunk::<4> against the assumed specification, slices of up to 8 bytes (bounded cross-check)
    #[kani::proof]
    #[kani::unwind(10)]
    fn split_first_chunk_spec_bounded() {
        let buf: [u8; 8] = kani::any();
        let n: usize = kani::any();
        kani::assume(n <= 8);
        let s: &[u8] = &buf[..n];
        match s.split_first_chunk::<4>() {
            Some((a, t)) => {
                assert!(n >= 4 && t.len() == n - 4);
                assert!(a[0] == buf[0] && a[1] == buf[1] && a[2] == buf[2] && a[3] == buf[3]);
                let mut i = 0;
                while i < t.len() {
                    assert!(t[i] == buf[4 + i]);
                    i += 1;
                }
            }
            None => assert!(n < 4),
        }
    }
}
