
// ==== appended by /verif/tools/kani_run.py (scratch copy only; never committed to /repo) ====
#[cfg(kani)]
mod __verif_kani {
    use super::*;
    use crate::timezone::LocalTimeType;

    fn any_dt() -> DateTime {
        let lt = match LocalTimeType::with_ut_offset(kani::any()) {
            Ok(lt) => lt,
            Err(_) => LocalTimeType::utc(),
        };
        // the search builds DateTime literals; field access goes through the parent module's constructors
        match DateTime::from_timespec_and_local_unchecked_for_verif(kani::any(), kani::any(), kani::any(), lt) {
            dt => dt,
        }
    }

    fn any_kind() -> FoundDateTimeKind {
        if kani::any() {
            FoundDateTimeKind::Normal(any_dt())
        } else {
            FoundDateTimeKind::Skipped { before_transition: any_dt(), after_transition: any_dt() }
        }
    }

    fn same_dt(a: &DateTime, b: &DateTime) -> bool {
        a.year() == b.year() && a.month() == b.month() && a.month_day() == b.month_day() && a.hour() == b.hour() && a.minute() == b.minute()
            && a.second() == b.second() && a.nanoseconds() == b.nanoseconds() && a.unix_time() == b.unix_time() && a.local_time_type() == b.local_time_type()
    }

    fn same_kind(a: &FoundDateTimeKind, b: &FoundDateTimeKind) -> bool {
        match (a, b) {
            (FoundDateTimeKind::Normal(x), FoundDateTimeKind::Normal(y)) => same_dt(x, y),
            (FoundDateTimeKind::Skipped { before_transition: a1, after_transition: a2 }, FoundDateTimeKind::Skipped { before_transition: b1, after_transition: b2 }) => same_dt(a1, b1) && same_dt(a2, b2),
            _ => false,
        }
    }

    fn same_slot(a: &Option<FoundDateTimeKind>, b: &Option<FoundDateTimeKind>) -> bool {
        match (a, b) {
            (Some(x), Some(y)) => same_kind(x, y),
            (None, None) => true,
            _ => false,
        }
    }

    fn same_opt_dt(a: &Option<DateTime>, b: &Option<DateTime>) -> bool {
        match (a, b) {
            (Some(x), Some(y)) => same_dt(x, y),
            (None, None) => true,
            _ => false,
        }
    }

    const N: usize = 8;

    /// C17, inductive step (BOUNDED: buffer length <= 8): from any state with current_index = min(count, len) and
    /// arbitrary stale buffer contents, push counts the entry, writes it at current_index iff there is room, and
    /// touches no other slot.
    #[kani::proof]
    #[kani::unwind(10)]
    fn refmut_push_step() {
        let mut buf: [Option<FoundDateTimeKind>; N] = [None; N];
        let mut i = 0;
        while i < N {
            if kani::any() {
                buf[i] = Some(any_kind());
            }
            i += 1;
        }
        let old = buf;
        let len: usize = kani::any();
        kani::assume(len <= N);
        let count: usize = kani::any();
        kani::assume(count < usize::MAX);
        let cur = if count < len { count } else { len };
        let x = any_kind();
        let (new_cur, new_count, exhaustive, data_len) = {
            let mut list = FoundDateTimeListRefMut { buf: &mut buf[..len], current_index: cur, count };
            list.push(x);
            (list.current_index, list.count(), list.is_exhaustive(), list.data().len())
        };
        assert!(new_count == count + 1);
        assert!(data_len == new_cur);
        assert!(exhaustive == (new_cur == new_count));
        if cur < len {
            assert!(new_cur == cur + 1);
            assert!(same_slot(&buf[cur], &Some(x)));
        } else {
            assert!(new_cur == cur);
        }
        let mut k = 0;
        while k < N {
            if !(cur < len && k == cur) {
                assert!(same_slot(&buf[k], &old[k]));
            }
            k += 1;
        }
        kani::cover!(cur < len);
        kani::cover!(cur == len && len > 0);
        kani::cover!(len == 0);
    }
}

// ==== C05 / C06: bounded check of the real find_date_time (table part; no leap seconds; no or fixed trailing rule) ====
#[cfg(kani)]
mod __verif_kani_search {
    use super::*;
    use crate::timezone::{LocalTimeType, Transition, TransitionRule};

    const CAP: usize = 6;

    /// recorder list: by the parametricity argument of C17 the pushed sequence is the result list of both real list types
    struct Recorder {
        n: usize,
        kinds: [Option<FoundDateTimeKind>; CAP],
    }

    impl DateTimeList for Recorder {
        fn push(&mut self, found_date_time: FoundDateTimeKind) {
            if self.n < CAP {
                self.kinds[self.n] = Some(found_date_time);
            }
            self.n += 1;
        }
    }

    /// stand-in for datetime::unix_time (proved by Verus to be the calendar second count): the search only uses the value,
    /// so any cheap injective-enough function of the fields will do; this keeps 64-bit division cascades out of CBMC
    fn stub_unix_time(year: i32, month: u8, month_day: u8, hour: u8, minute: u8, second: u8) -> i64 {
        ((year as i64) << 26) | ((month as i64) << 22) | ((month_day as i64) << 17) | ((hour as i64) << 12) | ((minute as i64) << 6) | (second as i64)
    }

    /// stand-in for DateTime::from_timespec_and_local by its Verus-proved contract (fields are irrelevant to the search)
    fn stub_from_timespec_and_local(unix_time: i64, nanoseconds: u32, local_time_type: LocalTimeType) -> Result<DateTime, TzError> {
        match unix_time.checked_add(local_time_type.ut_offset() as i64) {
            Some(v) if -67768100567971200 <= v && v <= 67767976233532799 => {
                Ok(DateTime::from_timespec_and_local_unchecked_for_verif(unix_time, nanoseconds, (0, 1, 1, 0, 0, 0), local_time_type))
            }
            _ => Err(TzError::OutOfRange),
        }
    }

    fn stub_check_date_time_inputs(_year: i32, _month: u8, _month_day: u8, _hour: u8, _minute: u8, _second: u8, _nanoseconds: u32) -> Result<(), crate::error::datetime::DateTimeError> {
        Ok(())
    }

    const NT: usize = 3;

    /// the forward lookup of C03 for a table without leap seconds (count = UTC), index of the type or None
    fn type_at(trans: &[Transition], ntrans: usize, rule_type: Option<usize>, u: i64) -> Option<usize> {
        if u >= trans[ntrans - 1].unix_leap_time() {
            return rule_type;
        }
        let mut idx = 0;
        let mut i = 0;
        while i < NT {
            if i < ntrans && trans[i].unix_leap_time() <= u {
                idx = trans[i].local_time_type_index();
            }
            i += 1;
        }
        Some(idx)
    }

    /// BOUNDED: 1..=3 transitions with arbitrary strictly increasing i64 times and arbitrary type indices into 3 types with
    /// arbitrary i32 offsets (equal offsets allowed), no leap seconds, trailing rule none or Fixed(last type).
    #[kani::proof]
    #[kani::unwind(8)]
    #[kani::stub(crate::datetime::unix_time, stub_unix_time)]
    #[kani::stub(crate::datetime::DateTime::from_timespec_and_local, stub_from_timespec_and_local)]
    #[kani::stub(crate::datetime::check_date_time_inputs, stub_check_date_time_inputs)]
    fn search_table_bounded() {
        let offs: [i32; 3] = [kani::any(), kani::any(), kani::any()];
        kani::assume(offs[0] != i32::MIN && offs[1] != i32::MIN && offs[2] != i32::MIN);
        let types = [
            LocalTimeType::with_ut_offset(offs[0]).unwrap(),
            LocalTimeType::with_ut_offset(offs[1]).unwrap(),
            LocalTimeType::with_ut_offset(offs[2]).unwrap(),
        ];
        let ntrans: usize = kani::any();
        kani::assume(1 <= ntrans && ntrans <= NT);
        let t: [i64; NT] = [kani::any(), kani::any(), kani::any()];
        let ix: [usize; NT] = [kani::any(), kani::any(), kani::any()];
        kani::assume(ix[0] < 3 && ix[1] < 3 && ix[2] < 3);
        kani::assume(t[0] < t[1] && t[1] < t[2]);
        let trans_all = [Transition::new(t[0], ix[0]), Transition::new(t[1], ix[1]), Transition::new(t[2], ix[2])];
        let trans = &trans_all[..ntrans];
        let with_rule: bool = kani::any();
        let last_ix = ix[ntrans - 1];
        let rule = if with_rule { Some(TransitionRule::Fixed(types[last_ix])) } else { None };
        let tz = TimeZoneRef::new_unchecked_for_verif(trans, &types, &[], &rule);

        let (year, month, month_day, hour, minute, second): (i32, u8, u8, u8, u8, u8) = (kani::any(), kani::any(), kani::any(), kani::any(), kani::any(), kani::any());
        kani::assume(month <= 12 && month_day <= 31 && hour <= 23 && minute <= 59 && second <= 60);
        let l = stub_unix_time(year, month, month_day, hour, minute, second) as i128;

        let mut rec = Recorder { n: 0, kinds: [None; CAP] };
        let r = find_date_time(&mut rec, year, month, month_day, hour, minute, second, 0, tz);
        if r.is_err() {
            return;
        }
        assert!(rec.n <= CAP);
        let rule_type = if with_rule { Some(last_ix) } else { None };

        // --- C05 soundness: every Normal entry shows the searched local time under the type the lookup reports there;
        // --- C06: every Skipped entry sits at a forward transition whose gap contains the searched time; order ascending
        let mut prev_instant: i128 = i128::MIN;
        let mut k = 0;
        while k < CAP {
            if k < rec.n {
                match rec.kinds[k] {
                    Some(FoundDateTimeKind::Normal(dt)) => {
                        let u = dt.unix_time();
                        let ti = type_at(&trans_all, ntrans, rule_type, u);
                        assert!(ti.is_some());
                        let lt = types[ti.unwrap()];
                        assert!(lt.ut_offset() == dt.local_time_type().ut_offset());
                        assert!(u as i128 + lt.ut_offset() as i128 == l);
                        assert!(prev_instant <= u as i128);
                        prev_instant = u as i128;
                    }
                    Some(FoundDateTimeKind::Skipped { before_transition, after_transition }) => {
                        let u = before_transition.unix_time();
                        assert!(after_transition.unix_time() == u);
                        let a = before_transition.local_time_type().ut_offset() as i128;
                        let b = after_transition.local_time_type().ut_offset() as i128;
                        // the gap [T + a, T + b) contains the searched time
                        assert!(u as i128 + a <= l && l < u as i128 + b);
                        // and T is a transition of the table, with those two types around it
                        let mut hit = false;
                        let mut i = 0;
                        while i < NT {
                            if i < ntrans && trans_all[i].unix_leap_time() == u {
                                let before_ix = if i == 0 { 0 } else { ix[i - 1] };
                                hit = types[before_ix].ut_offset() as i128 == a && types[ix[i]].ut_offset() as i128 == b && (i + 1 < ntrans || with_rule);
                            }
                            i += 1;
                        }
                        assert!(hit);
                        assert!(prev_instant <= u as i128);
                        prev_instant = u as i128;
                    }
                    None => assert!(false),
                }
            }
            k += 1;
        }

        // --- C05 completeness: any instant whose clock shows the searched time is among the Normal entries
        let u: i64 = kani::any();
        if let Some(ti) = type_at(&trans_all, ntrans, rule_type, u) {
            if u as i128 + types[ti].ut_offset() as i128 == l {
                let mut found = 0;
                let mut k = 0;
                while k < CAP {
                    if k < rec.n {
                        if let Some(FoundDateTimeKind::Normal(dt)) = rec.kinds[k] {
                            if dt.unix_time() == u {
                                found += 1;
                            }
                        }
                    }
                    k += 1;
                }
                assert!(found == 1);
            }
        }

        // --- C06 completeness: a forward transition whose gap contains the searched time is reported
        let j: usize = kani::any();
        kani::assume(j < ntrans && (j + 1 < ntrans || with_rule));
        let a = types[if j == 0 { 0 } else { ix[j - 1] }].ut_offset() as i128;
        let b = types[ix[j]].ut_offset() as i128;
        let tj = t[j] as i128;
        if tj + a <= l && l < tj + b {
            let mut found = 0;
            let mut k = 0;
            while k < CAP {
                if k < rec.n {
                    if let Some(FoundDateTimeKind::Skipped { before_transition, .. }) = rec.kinds[k] {
                        if before_transition.unix_time() as i128 == tj {
                            found += 1;
                        }
                    }
                }
                k += 1;
            }
            assert!(found == 1);
        }
        kani::cover!(rec.n == 0);
        kani::cover!(rec.n == 2);
        kani::cover!(rec.n == 3);
    }
}

// ==== C05 / C06: bounded check of the real find_date_time (table part; no leap seconds; no or fixed trailing rule) ====
#[cfg(kani)]
mod __verif_kani_search_small {
    use super::*;
    use crate::timezone::{LocalTimeType, Transition, TransitionRule};

    const CAP: usize = 4;

    /// recorder list: by the parametricity argument of C17 the pushed sequence is the result list of both real list types
    struct Recorder {
        n: usize,
        kinds: [Option<FoundDateTimeKind>; CAP],
    }

    impl DateTimeList for Recorder {
        fn push(&mut self, found_date_time: FoundDateTimeKind) {
            if self.n < CAP {
                self.kinds[self.n] = Some(found_date_time);
            }
            self.n += 1;
        }
    }

    /// stand-in for datetime::unix_time (proved by Verus to be the calendar second count): the search only uses the value,
    /// so any cheap injective-enough function of the fields will do; this keeps 64-bit division cascades out of CBMC
    fn stub_unix_time(year: i32, month: u8, month_day: u8, hour: u8, minute: u8, second: u8) -> i64 {
        ((year as i64) << 26) | ((month as i64) << 22) | ((month_day as i64) << 17) | ((hour as i64) << 12) | ((minute as i64) << 6) | (second as i64)
    }

    /// stand-in for DateTime::from_timespec_and_local by its Verus-proved contract (fields are irrelevant to the search)
    fn stub_from_timespec_and_local(unix_time: i64, nanoseconds: u32, local_time_type: LocalTimeType) -> Result<DateTime, TzError> {
        match unix_time.checked_add(local_time_type.ut_offset() as i64) {
            Some(v) if -67768100567971200 <= v && v <= 67767976233532799 => {
                Ok(DateTime::from_timespec_and_local_unchecked_for_verif(unix_time, nanoseconds, (0, 1, 1, 0, 0, 0), local_time_type))
            }
            _ => Err(TzError::OutOfRange),
        }
    }

    fn stub_check_date_time_inputs(_year: i32, _month: u8, _month_day: u8, _hour: u8, _minute: u8, _second: u8, _nanoseconds: u32) -> Result<(), crate::error::datetime::DateTimeError> {
        Ok(())
    }

    const NT: usize = 2;

    /// the forward lookup of C03 for a table without leap seconds (count = UTC), index of the type or None
    fn type_at(trans: &[Transition], ntrans: usize, rule_type: Option<usize>, u: i64) -> Option<usize> {
        if u >= trans[ntrans - 1].unix_leap_time() {
            return rule_type;
        }
        let mut idx = 0;
        let mut i = 0;
        while i < NT {
            if i < ntrans && trans[i].unix_leap_time() <= u {
                idx = trans[i].local_time_type_index();
            }
            i += 1;
        }
        Some(idx)
    }

    /// BOUNDED: 1..=2 transitions with arbitrary strictly increasing i64 times and arbitrary type indices into 2 types with
    /// arbitrary i32 offsets (equal offsets allowed), no leap seconds, trailing rule none or Fixed(last type).
    #[kani::proof]
    #[kani::unwind(6)]
    #[kani::stub(crate::datetime::unix_time, stub_unix_time)]
    #[kani::stub(crate::datetime::DateTime::from_timespec_and_local, stub_from_timespec_and_local)]
    #[kani::stub(crate::datetime::check_date_time_inputs, stub_check_date_time_inputs)]
    fn search_table_bounded_small() {
        let offs: [i32; 2] = [kani::any(), kani::any()];
        kani::assume(offs[0] != i32::MIN && offs[1] != i32::MIN);
        let types = [
            LocalTimeType::with_ut_offset(offs[0]).unwrap(),
            LocalTimeType::with_ut_offset(offs[1]).unwrap(),
        ];
        let ntrans: usize = kani::any();
        kani::assume(1 <= ntrans && ntrans <= NT);
        let t: [i64; NT] = [kani::any(), kani::any()];
        let ix: [usize; NT] = [kani::any(), kani::any()];
        kani::assume(ix[0] < 2 && ix[1] < 2);
        kani::assume(t[0] < t[1]);
        let trans_all = [Transition::new(t[0], ix[0]), Transition::new(t[1], ix[1])];
        let trans = &trans_all[..ntrans];
        let with_rule: bool = kani::any();
        let last_ix = ix[ntrans - 1];
        let rule = if with_rule { Some(TransitionRule::Fixed(types[last_ix])) } else { None };
        let tz = TimeZoneRef::new_unchecked_for_verif(trans, &types, &[], &rule);

        let (year, month, month_day, hour, minute, second): (i32, u8, u8, u8, u8, u8) = (kani::any(), kani::any(), kani::any(), kani::any(), kani::any(), kani::any());
        kani::assume(month <= 12 && month_day <= 31 && hour <= 23 && minute <= 59 && second <= 60);
        let l = stub_unix_time(year, month, month_day, hour, minute, second) as i128;

        let mut rec = Recorder { n: 0, kinds: [None; CAP] };
        let r = find_date_time(&mut rec, year, month, month_day, hour, minute, second, 0, tz);
        if r.is_err() {
            return;
        }
        assert!(rec.n <= CAP);
        let rule_type = if with_rule { Some(last_ix) } else { None };

        // --- C05 soundness: every Normal entry shows the searched local time under the type the lookup reports there;
        // --- C06: every Skipped entry sits at a forward transition whose gap contains the searched time; order ascending
        let mut prev_instant: i128 = i128::MIN;
        let mut k = 0;
        while k < CAP {
            if k < rec.n {
                match rec.kinds[k] {
                    Some(FoundDateTimeKind::Normal(dt)) => {
                        let u = dt.unix_time();
                        let ti = type_at(&trans_all, ntrans, rule_type, u);
                        assert!(ti.is_some());
                        let lt = types[ti.unwrap()];
                        assert!(lt.ut_offset() == dt.local_time_type().ut_offset());
                        assert!(u as i128 + lt.ut_offset() as i128 == l);
                        assert!(prev_instant <= u as i128);
                        prev_instant = u as i128;
                    }
                    Some(FoundDateTimeKind::Skipped { before_transition, after_transition }) => {
                        let u = before_transition.unix_time();
                        assert!(after_transition.unix_time() == u);
                        let a = before_transition.local_time_type().ut_offset() as i128;
                        let b = after_transition.local_time_type().ut_offset() as i128;
                        // the gap [T + a, T + b) contains the searched time
                        assert!(u as i128 + a <= l && l < u as i128 + b);
                        // and T is a transition of the table, with those two types around it
                        let mut hit = false;
                        let mut i = 0;
                        while i < NT {
                            if i < ntrans && trans_all[i].unix_leap_time() == u {
                                let before_ix = if i == 0 { 0 } else { ix[i - 1] };
                                hit = types[before_ix].ut_offset() as i128 == a && types[ix[i]].ut_offset() as i128 == b && (i + 1 < ntrans || with_rule);
                            }
                            i += 1;
                        }
                        assert!(hit);
                        assert!(prev_instant <= u as i128);
                        prev_instant = u as i128;
                    }
                    None => assert!(false),
                }
            }
            k += 1;
        }

        // --- C05 completeness: any instant whose clock shows the searched time is among the Normal entries
        let u: i64 = kani::any();
        if let Some(ti) = type_at(&trans_all, ntrans, rule_type, u) {
            if u as i128 + types[ti].ut_offset() as i128 == l {
                let mut found = 0;
                let mut k = 0;
                while k < CAP {
                    if k < rec.n {
                        if let Some(FoundDateTimeKind::Normal(dt)) = rec.kinds[k] {
                            if dt.unix_time() == u {
                                found += 1;
                            }
                        }
                    }
                    k += 1;
                }
                assert!(found == 1);
            }
        }

        // --- C06 completeness: a forward transition whose gap contains the searched time is reported
        let j: usize = kani::any();
        kani::assume(j < ntrans && (j + 1 < ntrans || with_rule));
        let a = types[if j == 0 { 0 } else { ix[j - 1] }].ut_offset() as i128;
        let b = types[ix[j]].ut_offset() as i128;
        let tj = t[j] as i128;
        if tj + a <= l && l < tj + b {
            let mut found = 0;
            let mut k = 0;
            while k < CAP {
                if k < rec.n {
                    if let Some(FoundDateTimeKind::Skipped { before_transition, .. }) = rec.kinds[k] {
                        if before_transition.unix_time() as i128 == tj {
                            found += 1;
                        }
                    }
                }
                k += 1;
            }
            assert!(found == 1);
        }
        kani::cover!(rec.n == 0);
        kani::cover!(rec.n == 2);
    }
}

// ==== C05 / C06 with one leap-second record (thorough tier): table of <= 2 transitions, 2 types, rule none / fixed ====
#[cfg(kani)]
mod __verif_kani_search_leap {
    use super::*;
    use crate::timezone::{LeapSecond, LocalTimeType, Transition, TransitionRule};

    const CAP: usize = 4;
    const NT: usize = 2;

    struct Recorder {
        n: usize,
        kinds: [Option<FoundDateTimeKind>; CAP],
    }

    impl DateTimeList for Recorder {
        fn push(&mut self, found_date_time: FoundDateTimeKind) {
            if self.n < CAP {
                self.kinds[self.n] = Some(found_date_time);
            }
            self.n += 1;
        }
    }

    fn stub_unix_time(year: i32, month: u8, month_day: u8, hour: u8, minute: u8, second: u8) -> i64 {
        ((year as i64) << 26) | ((month as i64) << 22) | ((month_day as i64) << 17) | ((hour as i64) << 12) | ((minute as i64) << 6) | (second as i64)
    }

    fn stub_from_timespec_and_local(unix_time: i64, nanoseconds: u32, local_time_type: LocalTimeType) -> Result<DateTime, TzError> {
        match unix_time.checked_add(local_time_type.ut_offset() as i64) {
            Some(v) if -67768100567971200 <= v && v <= 67767976233532799 => {
                Ok(DateTime::from_timespec_and_local_unchecked_for_verif(unix_time, nanoseconds, (0, 1, 1, 0, 0, 0), local_time_type))
            }
            _ => Err(TzError::OutOfRange),
        }
    }

    fn stub_check_date_time_inputs(_year: i32, _month: u8, _month_day: u8, _hour: u8, _minute: u8, _second: u8, _nanoseconds: u32) -> Result<(), crate::error::datetime::DateTimeError> {
        Ok(())
    }

    /// count -> UTC for a table with the single record (l, c), c = +1 or -1 (the specification of C12, written out)
    fn g(l: i64, c: i32, t: i128) -> i128 {
        let applies = if c > 0 { (l as i128) < t } else { l as i128 <= t };
        if applies { t - c as i128 } else { t }
    }

    /// UTC -> count: the largest count whose UTC value is <= u (within one step of u for a single record)
    fn f(l: i64, c: i32, u: i128) -> i128 {
        if g(l, c, u + 1) <= u && u < g(l, c, u + 2) {
            u + 1
        } else if g(l, c, u) <= u && u < g(l, c, u + 1) {
            u
        } else {
            u - 1
        }
    }

    fn type_at(trans: &[Transition], ntrans: usize, rule_type: Option<usize>, l: i64, c: i32, u: i64) -> Option<usize> {
        let t = f(l, c, u as i128);
        if t >= trans[ntrans - 1].unix_leap_time() as i128 {
            return rule_type;
        }
        let mut idx = 0;
        let mut i = 0;
        while i < NT {
            if i < ntrans && trans[i].unix_leap_time() as i128 <= t {
                idx = trans[i].local_time_type_index();
            }
            i += 1;
        }
        Some(idx)
    }

    /// BOUNDED: 1..=2 transitions, 2 types with arbitrary i32 offsets, ONE leap-second record (time >= 0, correction +1 or -1),
    /// rule none or Fixed(last type).  Transition times are counts; the results are UTC instants.
    #[kani::proof]
    #[kani::unwind(6)]
    #[kani::stub(crate::datetime::unix_time, stub_unix_time)]
    #[kani::stub(crate::datetime::DateTime::from_timespec_and_local, stub_from_timespec_and_local)]
    #[kani::stub(crate::datetime::check_date_time_inputs, stub_check_date_time_inputs)]
    fn search_table_bounded_leap() {
        let offs: [i32; 2] = [kani::any(), kani::any()];
        kani::assume(offs[0] != i32::MIN && offs[1] != i32::MIN);
        let types = [LocalTimeType::with_ut_offset(offs[0]).unwrap(), LocalTimeType::with_ut_offset(offs[1]).unwrap()];
        let ntrans: usize = kani::any();
        kani::assume(1 <= ntrans && ntrans <= NT);
        let t: [i64; NT] = [kani::any(), kani::any()];
        let ix: [usize; NT] = [kani::any(), kani::any()];
        kani::assume(ix[0] < 2 && ix[1] < 2);
        kani::assume(t[0] < t[1]);
        // keep clear of the i64 extremes: the conversions themselves are covered by C12 (Verus), here the search logic is the subject
        kani::assume(t[0] > i64::MIN + 4 && t[1] < i64::MAX - 4);
        let trans_all = [Transition::new(t[0], ix[0]), Transition::new(t[1], ix[1])];
        let trans = &trans_all[..ntrans];
        let l: i64 = kani::any();
        let c: i32 = if kani::any() { 1 } else { -1 };
        kani::assume(l >= 0);
        let leaps = [LeapSecond::new(l, c)];
        let with_rule: bool = kani::any();
        let last_ix = ix[ntrans - 1];
        let rule = if with_rule { Some(TransitionRule::Fixed(types[last_ix])) } else { None };
        let tz = TimeZoneRef::new_unchecked_for_verif(trans, &types, &leaps, &rule);

        let (year, month, month_day, hour, minute, second): (i32, u8, u8, u8, u8, u8) = (kani::any(), kani::any(), kani::any(), kani::any(), kani::any(), kani::any());
        kani::assume(month <= 12 && month_day <= 31 && hour <= 23 && minute <= 59 && second <= 60);
        let loc = stub_unix_time(year, month, month_day, hour, minute, second) as i128;

        let mut rec = Recorder { n: 0, kinds: [None; CAP] };
        let r = find_date_time(&mut rec, year, month, month_day, hour, minute, second, 0, tz);
        if r.is_err() {
            return;
        }
        assert!(rec.n <= CAP);
        let rule_type = if with_rule { Some(last_ix) } else { None };

        let mut prev_instant: i128 = i128::MIN;
        let mut k = 0;
        while k < CAP {
            if k < rec.n {
                match rec.kinds[k] {
                    Some(FoundDateTimeKind::Normal(dt)) => {
                        let u = dt.unix_time();
                        let ti = type_at(&trans_all, ntrans, rule_type, l, c, u);
                        assert!(ti.is_some());
                        let lt = types[ti.unwrap()];
                        assert!(lt.ut_offset() == dt.local_time_type().ut_offset());
                        assert!(u as i128 + lt.ut_offset() as i128 == loc);
                        assert!(prev_instant <= u as i128);
                        prev_instant = u as i128;
                    }
                    Some(FoundDateTimeKind::Skipped { before_transition, after_transition }) => {
                        let u = before_transition.unix_time();
                        assert!(after_transition.unix_time() == u);
                        let a = before_transition.local_time_type().ut_offset() as i128;
                        let b = after_transition.local_time_type().ut_offset() as i128;
                        // reported at the UTC instant that the transition's count denotes
                        let mut hit = false;
                        let mut i = 0;
                        while i < NT {
                            if i < ntrans && g(l, c, trans_all[i].unix_leap_time() as i128) == u as i128 {
                                let before_ix = if i == 0 { 0 } else { ix[i - 1] };
                                if types[before_ix].ut_offset() as i128 == a && types[ix[i]].ut_offset() as i128 == b && (i + 1 < ntrans || with_rule) {
                                    hit = true;
                                }
                            }
                            i += 1;
                        }
                        assert!(hit);
                        assert!(prev_instant <= u as i128);
                        prev_instant = u as i128;
                    }
                    None => assert!(false),
                }
            }
            k += 1;
        }

        // completeness of the valid results (instants deleted by the negative leap second have no clock reading: excluded)
        let u: i64 = kani::any();
        let deleted = c < 0 && u as i128 == l as i128;
        if !deleted {
            if let Some(ti) = type_at(&trans_all, ntrans, rule_type, l, c, u) {
                if u as i128 + types[ti].ut_offset() as i128 == loc {
                    let mut found = 0;
                    let mut k = 0;
                    while k < CAP {
                        if k < rec.n {
                            if let Some(FoundDateTimeKind::Normal(dt)) = rec.kinds[k] {
                                if dt.unix_time() == u {
                                    found += 1;
                                }
                            }
                        }
                        k += 1;
                    }
                    assert!(found == 1);
                }
            }
        }
        kani::cover!(rec.n == 0);
        kani::cover!(rec.n == 2);
    }
}

// ==== C05 / C06, DST-rule branch of the search (thorough tier): rule-only zone, the six yearly instants symbolic ====
#[cfg(kani)]
mod __verif_kani_search_rule {
    use super::*;
    use crate::timezone::{AlternateTime, Julian0WithLeap, LocalTimeType, RuleDay, TransitionRule};
    use core::sync::atomic::{AtomicI64, Ordering};

    const CAP: usize = 5;

    struct Recorder {
        n: usize,
        kinds: [Option<FoundDateTimeKind>; CAP],
    }

    impl DateTimeList for Recorder {
        fn push(&mut self, found_date_time: FoundDateTimeKind) {
            if self.n < CAP {
                self.kinds[self.n] = Some(found_date_time);
            }
            self.n += 1;
        }
    }

    // the harness publishes the searched year and the six instants S(y-1), E(y-1), S(y), E(y), S(y+1), E(y+1) here;
    // the stand-in for RuleDay::unix_time (proved by Verus to be day number * 86400 + time) reads them back
    static YEAR: AtomicI64 = AtomicI64::new(0);
    static INSTANTS: [AtomicI64; 6] = [AtomicI64::new(0), AtomicI64::new(0), AtomicI64::new(0), AtomicI64::new(0), AtomicI64::new(0), AtomicI64::new(0)];

    fn stub_rule_day_unix_time(day: &RuleDay, year: i32, _day_time_in_utc: i64) -> i64 {
        let is_end = matches!(day, RuleDay::Julian0WithLeap(j) if j.get() == 1);
        let k = year as i64 - YEAR.load(Ordering::Relaxed); // -1, 0, +1
        let idx = ((k + 1) * 2 + if is_end { 1 } else { 0 }) as usize;
        INSTANTS[idx].load(Ordering::Relaxed)
    }

    fn stub_unix_time(year: i32, month: u8, month_day: u8, hour: u8, minute: u8, second: u8) -> i64 {
        ((year as i64) << 26) | ((month as i64) << 22) | ((month_day as i64) << 17) | ((hour as i64) << 12) | ((minute as i64) << 6) | (second as i64)
    }

    fn stub_from_timespec_and_local(unix_time: i64, nanoseconds: u32, local_time_type: LocalTimeType) -> Result<DateTime, TzError> {
        match unix_time.checked_add(local_time_type.ut_offset() as i64) {
            Some(v) if -67768100567971200 <= v && v <= 67767976233532799 => {
                Ok(DateTime::from_timespec_and_local_unchecked_for_verif(unix_time, nanoseconds, (0, 1, 1, 0, 0, 0), local_time_type))
            }
            _ => Err(TzError::OutOfRange),
        }
    }

    fn stub_check_date_time_inputs(_year: i32, _month: u8, _month_day: u8, _hour: u8, _minute: u8, _second: u8, _nanoseconds: u32) -> Result<(), crate::error::datetime::DateTimeError> {
        Ok(())
    }

    /// daylight time at u according to the six instants: periods [S, E) if the start comes first, else [S(k), E(k+1));
    /// outside the three modelled years the state next to the window continues
    fn in_dst(t: &[i64; 6], start_first: bool, u: i64) -> bool {
        if start_first {
            (t[0] <= u && u < t[1]) || (t[2] <= u && u < t[3]) || (t[4] <= u && u < t[5])
        } else {
            u < t[1] || (t[0] <= u && u < t[3]) || (t[2] <= u && u < t[5]) || t[4] <= u
        }
    }

    /// BOUNDED to what it models: a rule-only zone (no table, no leap seconds) whose DST rule has strictly interleaving
    /// start / end instants in the three years around the searched one (arbitrary symbolic instants), arbitrary offsets
    /// in the constructor's range.  Checks the merge logic of the DST-rule branch: valid results, gaps, order.
    #[kani::proof]
    #[kani::unwind(10)]
    #[kani::stub(crate::datetime::unix_time, stub_unix_time)]
    #[kani::stub(crate::datetime::DateTime::from_timespec_and_local, stub_from_timespec_and_local)]
    #[kani::stub(crate::datetime::check_date_time_inputs, stub_check_date_time_inputs)]
    #[kani::stub(crate::timezone::RuleDay::unix_time, stub_rule_day_unix_time)]
    fn search_rule_bounded() {
        let std_off: i32 = kani::any();
        let dst_off: i32 = kani::any();
        kani::assume(-90000 < std_off && std_off < 93600 && -90000 < dst_off && dst_off < 93600);
        let std = LocalTimeType::with_ut_offset(std_off).unwrap();
        let dst = LocalTimeType::new(dst_off, true, None).unwrap();
        let alt = AlternateTime::new_unchecked_for_verif(std, dst, RuleDay::Julian0WithLeap(Julian0WithLeap::new(0).unwrap()), 0, RuleDay::Julian0WithLeap(Julian0WithLeap::new(1).unwrap()), 0);
        let types = [std, dst];
        let rule = Some(TransitionRule::Alternate(alt));
        let tz = TimeZoneRef::new_unchecked_for_verif(&[], &types, &[], &rule);

        let t: [i64; 6] = [kani::any(), kani::any(), kani::any(), kani::any(), kani::any(), kani::any()];
        let start_first: bool = kani::any();
        if start_first {
            kani::assume(t[0] < t[1] && t[1] < t[2] && t[2] < t[3] && t[3] < t[4] && t[4] < t[5]);
        } else {
            kani::assume(t[1] < t[0] && t[0] < t[3] && t[3] < t[2] && t[2] < t[5] && t[5] < t[4]);
        }
        kani::assume(t[5] < i64::MAX && t[4] < i64::MAX);

        let (year, month, month_day, hour, minute, second): (i32, u8, u8, u8, u8, u8) = (kani::any(), kani::any(), kani::any(), kani::any(), kani::any(), kani::any());
        kani::assume(month <= 12 && month_day <= 31 && hour <= 23 && minute <= 59 && second <= 60);
        YEAR.store(year as i64, Ordering::Relaxed);
        let mut i = 0;
        while i < 6 {
            INSTANTS[i].store(t[i], Ordering::Relaxed);
            i += 1;
        }
        let loc = stub_unix_time(year, month, month_day, hour, minute, second) as i128;

        let mut rec = Recorder { n: 0, kinds: [None; CAP] };
        let r = find_date_time(&mut rec, year, month, month_day, hour, minute, second, 0, tz);
        if r.is_err() {
            return;
        }
        assert!(rec.n <= CAP);
        let u_std = loc - std_off as i128;
        let u_dst = loc - dst_off as i128;

        // soundness and order
        let mut prev: i128 = i128::MIN;
        let mut n_std = 0;
        let mut n_dst = 0;
        let mut k = 0;
        while k < CAP {
            if k < rec.n {
                match rec.kinds[k] {
                    Some(FoundDateTimeKind::Normal(dt)) => {
                        let u = dt.unix_time();
                        let d = dt.local_time_type().is_dst();
                        assert!(u as i128 == if d { u_dst } else { u_std });
                        assert!(in_dst(&t, start_first, u) == d);
                        if d { n_dst += 1 } else { n_std += 1 }
                        assert!(prev <= u as i128);
                        prev = u as i128;
                    }
                    Some(FoundDateTimeKind::Skipped { before_transition, after_transition }) => {
                        let u = before_transition.unix_time();
                        assert!(after_transition.unix_time() == u);
                        let a = before_transition.local_time_type().ut_offset() as i128;
                        let b = after_transition.local_time_type().ut_offset() as i128;
                        assert!(u as i128 + a <= loc && loc < u as i128 + b);
                        // at one of the six instants, with the types on the two sides of it
                        let mut hit = false;
                        let mut j = 0;
                        while j < 6 {
                            if t[j] == u {
                                let is_start = j % 2 == 0;
                                hit = if is_start { a == std_off as i128 && b == dst_off as i128 } else { a == dst_off as i128 && b == std_off as i128 };
                            }
                            j += 1;
                        }
                        assert!(hit);
                        assert!(prev <= u as i128);
                        prev = u as i128;
                    }
                    None => assert!(false),
                }
            }
            k += 1;
        }
        // completeness of the valid results, no duplicates
        let std_valid = i64::MIN as i128 <= u_std && u_std <= i64::MAX as i128 && !in_dst(&t, start_first, u_std as i64);
        let dst_valid = i64::MIN as i128 <= u_dst && u_dst <= i64::MAX as i128 && in_dst(&t, start_first, u_dst as i64);
        assert!(n_std == if std_valid { 1 } else { 0 });
        assert!(n_dst == if dst_valid { 1 } else { 0 });
        // completeness of the gaps: a forward switch whose gap contains the searched time is reported once
        let j: usize = kani::any();
        kani::assume(j < 6);
        let (a, b) = if j % 2 == 0 { (std_off as i128, dst_off as i128) } else { (dst_off as i128, std_off as i128) };
        if t[j] as i128 + a <= loc && loc < t[j] as i128 + b {
            let mut found = 0;
            let mut k = 0;
            while k < CAP {
                if k < rec.n {
                    if let Some(FoundDateTimeKind::Skipped { before_transition, .. }) = rec.kinds[k] {
                        if before_transition.unix_time() == t[j] {
                            found += 1;
                        }
                    }
                }
                k += 1;
            }
            assert!(found == 1);
        }
        // (rec.n == 0 is impossible here: every local time is either shown by the clock or inside a gap)
        kani::cover!(rec.n == 1);
        kani::cover!(rec.n == 2);
        kani::cover!(n_std == 1 && n_dst == 1);
    }
}
