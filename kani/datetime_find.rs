
// ==== appended by /verif/tools/kani_run.py (scratch copy only; never committed to /repo) ====
#[cfg(kani)]
mod __verif_kani {
    use super::*;
    use crate::timezone::LocalTimeType;

    fn any_dt() -> DateTime {
        let lt = match LocalTimeType::with_ut_offset(kani::any()) {
            Ok(lt) => lt,
            Err(_) => LocalTimeType::utc(),
        };
        // the search builds DateTime literals; field access goes through the parent module's constructors
        match DateTime::from_timespec_and_local_unchecked_for_verif(kani::any(), kani::any(), kani::any(), lt) {
            dt => dt,
        }
    }

    fn any_kind() -> FoundDateTimeKind {
        if kani::any() {
            FoundDateTimeKind::Normal(any_dt())
        } else {
            FoundDateTimeKind::Skipped { before_transition: any_dt(), after_transition: any_dt() }
        }
    }

    fn same_dt(a: &DateTime, b: &DateTime) -> bool {
        a.year() == b.year() && a.month() == b.month() && a.month_day() == b.month_day() && a.hour() == b.hour() && a.minute() == b.minute()
            && a.second() == b.second() && a.nanoseconds() == b.nanoseconds() && a.unix_time() == b.unix_time() && a.local_time_type() == b.local_time_type()
    }

    fn same_kind(a: &FoundDateTimeKind, b: &FoundDateTimeKind) -> bool {
        match (a, b) {
            (FoundDateTimeKind::Normal(x), FoundDateTimeKind::Normal(y)) => same_dt(x, y),
            (FoundDateTimeKind::Skipped { before_transition: a1, after_transition: a2 }, FoundDateTimeKind::Skipped { before_transition: b1, after_transition: b2 }) => same_dt(a1, b1) && same_dt(a2, b2),
            _ => false,
        }
    }

    fn same_slot(a: &Option<FoundDateTimeKind>, b: &Option<FoundDateTimeKind>) -> bool {
        match (a, b) {
            (Some(x), Some(y)) => same_kind(x, y),
            (None, None) => true,
            _ => false,
        }
    }

    fn same_opt_dt(a: &Option<DateTime>, b: &Option<DateTime>) -> bool {
        match (a, b) {
            (Some(x), Some(y)) => same_dt(x, y),
            (None, None) => true,
            _ => false,
        }
    }

    const N: usize = 8;

    /// C17, inductive step (BOUNDED: buffer length <= 8): from any state with current_index = min(count, len) and
    /// arbitrary stale buffer contents, push counts the entry, writes it at current_index iff there is room, and
    /// touches no other slot.
    #[kani::proof]
    #[kani::unwind(10)]
    fn refmut_push_step() {
        let mut buf: [Option<FoundDateTimeKind>; N] = [None; N];
        let mut i = 0;
        while i < N {
            if kani::any() {
                buf[i] = Some(any_kind());
            }
            i += 1;
        }
        let old = buf;
        let len: usize = kani::any();
        kani::assume(len <= N);
        let count: usize = kani::any();
        kani::assume(count < usize::MAX);
        let cur = if count < len { count } else { len };
        let x = any_kind();
        let (new_cur, new_count, exhaustive, data_len) = {
            let mut list = FoundDateTimeListRefMut { buf: &mut buf[..len], current_index: cur, count };
            list.push(x);
            (list.current_index, list.count(), list.is_exhaustive(), list.data().len())
        };
        assert!(new_count == count + 1);
        assert!(data_len == new_cur);
        assert!(exhaustive == (new_cur == new_count));
        if cur < len {
            assert!(new_cur == cur + 1);
            assert!(same_slot(&buf[cur], &Some(x)));
        } else {
            assert!(new_cur == cur);
        }
        let mut k = 0;
        while k < N {
            if !(cur < len && k == cur) {
                assert!(same_slot(&buf[k], &old[k]));
            }
            k += 1;
        }
        kani::cover!(cur < len);
        kani::cover!(cur == len && len > 0);
        kani::cover!(len == 0);
    }

    /// C17 (BOUNDED: k <= 2 results, buffer length 2): after the same pushes the buffer list and the allocating list
    /// give the same unique / earliest / latest answers, and the buffer holds the same entries in the same order
    #[kani::proof]
    #[kani::unwind(4)]
    fn refmut_vs_alloc_accessors() {
        let k: usize = kani::any();
        kani::assume(k <= 2);
        let items = [any_kind(), any_kind()];
        let mut buf: [Option<FoundDateTimeKind>; 2] = [None; 2];
        let mut a = FoundDateTimeList::default();
        let mut b = FoundDateTimeListRefMut::new(&mut buf);
        let mut i = 0;
        while i < 2 {
            if i < k {
                a.push(items[i]);
                b.push(items[i]);
            }
            i += 1;
        }
        assert!(b.is_exhaustive() && b.count() == k);
        assert!(same_opt_dt(&a.unique(), &b.unique()));
        assert!(same_opt_dt(&a.earliest(), &b.earliest()));
        assert!(same_opt_dt(&a.latest(), &b.latest()));
        let v = a.into_inner();
        assert!(v.len() == k);
        let mut j = 0;
        while j < 2 {
            if j < k {
                assert!(same_slot(&b.data()[j], &Some(v[j])));
            }
            j += 1;
        }
        kani::cover!(k == 0);
        kani::cover!(k == 2);
    }
}
