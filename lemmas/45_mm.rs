// C11, Mm.w.d x Mm.w.d: the finite core is decided by computation inside Verus (assert by compute), one month and
// adjacency at a time: 5 x 5 x 7 x 7 combinations x 14 (weekday of the 1st, leap class) evaluations each

proof fn lemma_mm_compute_1()
    ensures
        mm_all_wb(1, false, 5), mm_all_wb(1, true, 5), mm_all_wb(2, false, 5), mm_all_wb(2, true, 5),
{
    assert(mm_all_wb(1, false, 5)) by (compute_only);
    assert(mm_all_wb(1, true, 5)) by (compute_only);
    assert(mm_all_wb(2, false, 5)) by (compute_only);
    assert(mm_all_wb(2, true, 5)) by (compute_only);
}

proof fn lemma_mm_compute_2()
    ensures
        mm_all_wb(3, false, 5), mm_all_wb(3, true, 5), mm_all_wb(4, false, 5), mm_all_wb(4, true, 5),
{
    assert(mm_all_wb(3, false, 5)) by (compute_only);
    assert(mm_all_wb(3, true, 5)) by (compute_only);
    assert(mm_all_wb(4, false, 5)) by (compute_only);
    assert(mm_all_wb(4, true, 5)) by (compute_only);
}

proof fn lemma_mm_compute_3()
    ensures
        mm_all_wb(5, false, 5), mm_all_wb(5, true, 5), mm_all_wb(6, false, 5), mm_all_wb(6, true, 5),
{
    assert(mm_all_wb(5, false, 5)) by (compute_only);
    assert(mm_all_wb(5, true, 5)) by (compute_only);
    assert(mm_all_wb(6, false, 5)) by (compute_only);
    assert(mm_all_wb(6, true, 5)) by (compute_only);
}

proof fn lemma_mm_compute_4()
    ensures
        mm_all_wb(7, false, 5), mm_all_wb(7, true, 5), mm_all_wb(8, false, 5), mm_all_wb(8, true, 5),
{
    assert(mm_all_wb(7, false, 5)) by (compute_only);
    assert(mm_all_wb(7, true, 5)) by (compute_only);
    assert(mm_all_wb(8, false, 5)) by (compute_only);
    assert(mm_all_wb(8, true, 5)) by (compute_only);
}

proof fn lemma_mm_compute_5()
    ensures
        mm_all_wb(9, false, 5), mm_all_wb(9, true, 5), mm_all_wb(10, false, 5), mm_all_wb(10, true, 5),
{
    assert(mm_all_wb(9, false, 5)) by (compute_only);
    assert(mm_all_wb(9, true, 5)) by (compute_only);
    assert(mm_all_wb(10, false, 5)) by (compute_only);
    assert(mm_all_wb(10, true, 5)) by (compute_only);
}

proof fn lemma_mm_compute_6()
    ensures
        mm_all_wb(11, false, 5), mm_all_wb(11, true, 5), mm_all_wb(12, false, 5), mm_all_wb(12, true, 5),
{
    assert(mm_all_wb(11, false, 5)) by (compute_only);
    assert(mm_all_wb(11, true, 5)) by (compute_only);
    assert(mm_all_wb(12, false, 5)) by (compute_only);
    assert(mm_all_wb(12, true, 5)) by (compute_only);
}

proof fn lemma_mm_compute(mb: int, adj: bool)
    requires
        1 <= mb <= 12,
    ensures
        mm_all_wb(mb, adj, 5),
{
    lemma_mm_compute_1();
    lemma_mm_compute_2();
    lemma_mm_compute_3();
    lemma_mm_compute_4();
    lemma_mm_compute_5();
    lemma_mm_compute_6();
}

proof fn lemma_mm_unfold_da(mb: int, adj: bool, wb: int, db: int, wa: int, n: int, da: int)
    requires
        mm_all_da(mb, adj, wb, db, wa, n),
        0 <= da < n,
    ensures
        mm_case_ok(mb, adj, wb, db, wa, da),
    decreases n,
{
    if da < n - 1 {
        lemma_mm_unfold_da(mb, adj, wb, db, wa, n - 1, da);
    }
}

proof fn lemma_mm_unfold_db(mb: int, adj: bool, wb: int, wa: int, n: int, db: int)
    requires
        mm_all_db(mb, adj, wb, wa, n),
        0 <= db < n,
    ensures
        mm_all_da(mb, adj, wb, db, wa, 7),
    decreases n,
{
    if db < n - 1 {
        lemma_mm_unfold_db(mb, adj, wb, wa, n - 1, db);
    }
}

proof fn lemma_mm_unfold_wa(mb: int, adj: bool, wb: int, n: int, wa: int)
    requires
        mm_all_wa(mb, adj, wb, n),
        1 <= wa <= n,
        adj || wb <= wa,
    ensures
        mm_all_db(mb, adj, wb, wa, 7),
    decreases n,
{
    if wa < n {
        lemma_mm_unfold_wa(mb, adj, wb, n - 1, wa);
    }
}

proof fn lemma_mm_unfold_wb(mb: int, adj: bool, n: int, wb: int)
    requires
        mm_all_wb(mb, adj, n),
        1 <= wb <= n,
    ensures
        mm_all_wa(mb, adj, wb, 5),
    decreases n,
{
    if wb < n {
        lemma_mm_unfold_wb(mb, adj, n - 1, wb);
    }
}

// the finite core: every admissible combination is handled correctly by the audited procedure
proof fn lemma_mm_case(mb: int, adj: bool, wb: int, db: int, wa: int, da: int)
    requires
        1 <= mb <= 12,
        1 <= wb <= 5,
        1 <= wa <= 5,
        0 <= db <= 6,
        0 <= da <= 6,
        adj || wb <= wa,
    ensures
        mm_case_ok(mb, adj, wb, db, wa, da),
{
    lemma_mm_compute(mb, adj);
    lemma_mm_unfold_wb(mb, adj, 5, wb);
    lemma_mm_unfold_wa(mb, adj, wb, 5, wa);
    lemma_mm_unfold_db(mb, adj, wb, wa, 7, db);
    lemma_mm_unfold_da(mb, adj, wb, db, wa, 7, da);
}

// min / max over the 14 combinations: bounds, and indices where they are attained
proof fn lemma_mm_minmax_bound(mb: int, adj: bool, wb: int, db: int, wa: int, da: int, n: int, i: int)
    requires
        0 <= i < n,
    ensures
        mm_min(mb, adj, wb, db, wa, da, n) <= mm_delta_m(mb, adj, i / 2, i % 2 == 1, wb, db, wa, da) <= mm_max(mb, adj, wb, db, wa, da, n),
    decreases n,
{
    if i < n - 1 {
        lemma_mm_minmax_bound(mb, adj, wb, db, wa, da, n - 1, i);
    }
}

proof fn lemma_mm_min_attained(mb: int, adj: bool, wb: int, db: int, wa: int, da: int, n: int) -> (i: int)
    requires
        1 <= n,
    ensures
        0 <= i < n,
        mm_min(mb, adj, wb, db, wa, da, n) == mm_delta_m(mb, adj, i / 2, i % 2 == 1, wb, db, wa, da),
    decreases n,
{
    if n <= 1 {
        0
    } else {
        let v = mm_delta_m(mb, adj, (n - 1) / 2, (n - 1) % 2 == 1, wb, db, wa, da);
        let j = lemma_mm_min_attained(mb, adj, wb, db, wa, da, n - 1);
        if v < mm_minmax(mb, adj, wb, db, wa, da, n - 1).0 { n - 1 } else { j }
    }
}

proof fn lemma_mm_max_attained(mb: int, adj: bool, wb: int, db: int, wa: int, da: int, n: int) -> (i: int)
    requires
        1 <= n,
    ensures
        0 <= i < n,
        mm_max(mb, adj, wb, db, wa, da, n) == mm_delta_m(mb, adj, i / 2, i % 2 == 1, wb, db, wa, da),
    decreases n,
{
    if n <= 1 {
        0
    } else {
        let v = mm_delta_m(mb, adj, (n - 1) / 2, (n - 1) % 2 == 1, wb, db, wa, da);
        let j = lemma_mm_max_attained(mb, adj, wb, db, wa, da, n - 1);
        if v > mm_minmax(mb, adj, wb, db, wa, da, n - 1).1 { n - 1 } else { j }
    }
}

// ---- linking the finite model to the calendar -------------------------------------------------------

// the model's day formula yields the rule day of the real calendar
proof fn lemma_mday_is(y: int, m: int, w: int, wd: int)
    requires
        1 <= m <= 12,
        1 <= w <= 5,
        0 <= wd <= 6,
    ensures
        mwd_day(y, m, w, wd) == mday(weekday(days_civil(y, m, 1)), dim(m, leap(y)), w, wd),
        1 <= mwd_day(y, m, w, wd) <= dim(m, leap(y)),
{
    let n1 = days_civil(y, m, 1);
    lemma_first_occurrence(n1, wd);
    let first = 1 + (wd - weekday(n1)) % 7;
    let d0 = first + 7 * (w - 1);
    let len = dim(m, leap(y));
    let d = if d0 > len { d0 - 7 } else { d0 };
    assert(d == mday(weekday(n1), len, w, wd));
    assert(days_civil(y, m, d) == n1 + (first - 1) + 7 * (if d0 > len { w - 2 } else { w - 1 }));
    lemma_weekday_shift(n1 + (first - 1), if d0 > len { w - 2 } else { w - 1 });
    assert(is_mwd_day(y, m, w, wd, d));
    lemma_mwd_is(y, m, w, wd, d);
}

// first day of the following month (January of the next year after December)
proof fn lemma_next_month_first(y: int, m: int)
    requires
        1 <= m <= 12,
    ensures
        m <= 11 ==> days_civil(y, m + 1, 1) == days_civil(y, m, 1) + dim(m, leap(y)),
        m == 12 ==> days_civil(y + 1, 1, 1) == days_civil(y, 12, 1) + 31,
{
    lemma_cum(m, leap(y));
    lemma_dby_step(y);
}

spec fn mm_after_year(mb: int, adj: bool, y: int) -> int {
    if adj && mb == 12 { y + 1 } else { y }
}

spec fn mm_after_month(mb: int, adj: bool) -> int {
    if adj { next_month(mb) } else { mb }
}

// in every year the distance of the two rule days is the model's delta for that year's class
proof fn lemma_mm_delta_year(mb: int, adj: bool, wb: int, db: int, wa: int, da: int, y: int)
    requires
        1 <= mb <= 12,
        1 <= wb <= 5,
        1 <= wa <= 5,
        0 <= db <= 6,
        0 <= da <= 6,
    ensures
        days_civil(mm_after_year(mb, adj, y), mm_after_month(mb, adj), mwd_day(mm_after_year(mb, adj, y), mm_after_month(mb, adj), wa, da))
            - days_civil(y, mb, mwd_day(y, mb, wb, db))
            == mm_delta_m(mb, adj, weekday(days_civil(y, mb, 1)), leap(y), wb, db, wa, da),
{
    let ya = mm_after_year(mb, adj, y);
    let ma = mm_after_month(mb, adj);
    lemma_mday_is(y, mb, wb, db);
    lemma_mday_is(ya, ma, wa, da);
    let f = weekday(days_civil(y, mb, 1));
    let lenb = dim(mb, leap(y));
    assert(days_civil(y, mb, mwd_day(y, mb, wb, db)) == days_civil(y, mb, 1) + mwd_day(y, mb, wb, db) - 1);
    assert(days_civil(ya, ma, mwd_day(ya, ma, wa, da)) == days_civil(ya, ma, 1) + mwd_day(ya, ma, wa, da) - 1);
    if adj {
        lemma_next_month_first(y, mb);
        assert(days_civil(ya, ma, 1) == days_civil(y, mb, 1) + lenb);
        assert(weekday(days_civil(ya, ma, 1)) == (f + lenb) % 7);
        assert(dim(ma, leap(ya)) == dim(next_month(mb), leap(y)));
    }
}

// every (weekday of the first of the month, leap class) combination occurs in some year
proof fn lemma_mm_year_for(mb: int, f: int, lp: bool) -> (y: int)
    requires
        1 <= mb <= 12,
        0 <= f <= 6,
    ensures
        leap(y) == lp,
        weekday(days_civil(y, mb, 1)) == f,
{
    hide(dby);
    let c = cum(mb, lp);
    let r = (f - c) % 7;
    let pat: int = if lp { 2 } else { 0 };
    lemma_wit_year(pat, r);
    let y = wit_year(pat, r);
    lemma_mod7_add(4 + dby(y), c, f);
    assert(days_civil(y, mb, 1) == dby(y) + c);
    y
}

// the "close" relation of a sorted pair: before-day of year y against after-day of the same year (of the next year for
// December -> January); it never flips exactly when the difference of the day times lies outside (min, max) of delta
proof fn lemma_mm_close(mbv: MonthWeekDay, tb: int, mav: MonthWeekDay, ta: int, adj: bool)
    requires
        mwd_wf(mbv),
        mwd_wf(mav),
        mav.month as int == mm_after_month(mbv.month as int, adj),
        adj || mbv.week <= mav.week,
    ensures
        (forall|y: int| #[trigger] rd_instant(RuleDay::MonthWeekDay(mbv), tb, y) <= rd_instant(RuleDay::MonthWeekDay(mav), ta, mm_after_year(mbv.month as int, adj, y)))
            == (tb - ta <= 86400 * mm_min(mbv.month as int, adj, mbv.week as int, mbv.week_day as int, mav.week as int, mav.week_day as int, 14)),
        (forall|y: int| rd_instant(RuleDay::MonthWeekDay(mav), ta, mm_after_year(mbv.month as int, adj, y)) <= #[trigger] rd_instant(RuleDay::MonthWeekDay(mbv), tb, y))
            == (86400 * mm_max(mbv.month as int, adj, mbv.week as int, mbv.week_day as int, mav.week as int, mav.week_day as int, 14) <= tb - ta),
{
    let mb = mbv.month as int;
    let wb = mbv.week as int;
    let db = mbv.week_day as int;
    let wa = mav.week as int;
    let da = mav.week_day as int;
    let rb = RuleDay::MonthWeekDay(mbv);
    let ra = RuleDay::MonthWeekDay(mav);
    let lo = mm_min(mb, adj, wb, db, wa, da, 14);
    let hi = mm_max(mb, adj, wb, db, wa, da, 14);
    // in every year the difference of the two instants is delta(year class) days plus the difference of the day times
    assert forall|y: int| rd_instant(ra, ta, mm_after_year(mb, adj, y)) - #[trigger] rd_instant(rb, tb, y)
        == 86400 * mm_delta_m(mb, adj, weekday(days_civil(y, mb, 1)), leap(y), wb, db, wa, da) + ta - tb
        && lo <= mm_delta_m(mb, adj, weekday(days_civil(y, mb, 1)), leap(y), wb, db, wa, da) <= hi by {
        lemma_mm_delta_year(mb, adj, wb, db, wa, da, y);
        let f = weekday(days_civil(y, mb, 1));
        let i = 2 * f + if leap(y) { 1int } else { 0 };
        lemma_mm_minmax_bound(mb, adj, wb, db, wa, da, 14, i);
        assert(i / 2 == f && (i % 2 == 1) == leap(y));
    }
    let imin = lemma_mm_min_attained(mb, adj, wb, db, wa, da, 14);
    let ymin = lemma_mm_year_for(mb, imin / 2, imin % 2 == 1);
    lemma_mm_delta_year(mb, adj, wb, db, wa, da, ymin);
    let imax = lemma_mm_max_attained(mb, adj, wb, db, wa, da, 14);
    let ymax = lemma_mm_year_for(mb, imax / 2, imax % 2 == 1);
    lemma_mm_delta_year(mb, adj, wb, db, wa, da, ymax);
    if forall|y: int| #[trigger] rd_instant(rb, tb, y) <= rd_instant(ra, ta, mm_after_year(mb, adj, y)) {
        assert(rd_instant(rb, tb, ymin) <= rd_instant(ra, ta, mm_after_year(mb, adj, ymin)));
    }
    if forall|y: int| rd_instant(ra, ta, mm_after_year(mb, adj, y)) <= #[trigger] rd_instant(rb, tb, y) {
        assert(rd_instant(ra, ta, mm_after_year(mb, adj, ymax)) <= rd_instant(rb, tb, ymax));
    }
}

// for a sorted pair the close relation never flips exactly when the audited procedure says so
proof fn lemma_mm_sorted(mbv: MonthWeekDay, tb: int, mav: MonthWeekDay, ta: int, adj: bool)
    requires
        mwd_wf(mbv),
        mwd_wf(mav),
        day_time_ok(tb),
        day_time_ok(ta),
        mav.month as int == mm_after_month(mbv.month as int, adj),
        adj || mbv.week <= mav.week,
    ensures
        ((forall|y: int| #[trigger] rd_instant(RuleDay::MonthWeekDay(mbv), tb, y) <= rd_instant(RuleDay::MonthWeekDay(mav), ta, mm_after_year(mbv.month as int, adj, y)))
            || (forall|y: int| rd_instant(RuleDay::MonthWeekDay(mav), ta, mm_after_year(mbv.month as int, adj, y)) <= #[trigger] rd_instant(RuleDay::MonthWeekDay(mbv), tb, y)))
            == mm_sorted_decision(mbv, tb, mav, ta),
{
    lemma_mm_close(mbv, tb, mav, ta, adj);
    lemma_mm_case(mbv.month as int, adj, mbv.week as int, mbv.week_day as int, mav.week as int, mav.week_day as int);
}

// ---- the relations that cannot flip because the days are far apart ------------------------------------

proof fn lemma_mwd_bounds(m: MonthWeekDay, t: int, y: int)
    requires
        mwd_wf(m),
        day_time_ok(t),
    ensures
        (dby(y) + cum(m.month as int, leap(y))) * 86400 - 698400 < rd_instant(RuleDay::MonthWeekDay(m), t, y),
        rd_instant(RuleDay::MonthWeekDay(m), t, y) < (dby(y) + cum(m.month as int, leap(y)) + dim(m.month as int, leap(y)) - 1) * 86400 + 694800,
{
    lemma_mday_is(y, m.month as int, m.week as int, m.week_day as int);
}

// a day of year y is before a day of year y + 1, unless it is a December day against a January day
proof fn lemma_mm_far_next(a: MonthWeekDay, ta: int, b: MonthWeekDay, tb: int, y: int)
    requires
        mwd_wf(a),
        mwd_wf(b),
        day_time_ok(ta),
        day_time_ok(tb),
        !(a.month == 12 && b.month == 1),
    ensures
        rd_instant(RuleDay::MonthWeekDay(a), ta, y) <= rd_instant(RuleDay::MonthWeekDay(b), tb, y + 1),
{
    hide(dby);
    hide(rd_instant);
    lemma_mwd_bounds(a, ta, y);
    lemma_mwd_bounds(b, tb, y + 1);
    lemma_dby_step(y);
    let ca = cum(a.month as int, leap(y)) + dim(a.month as int, leap(y)) - 1;
    let cb = cum(b.month as int, leap(y + 1));
    // at least 32 days apart: more than the largest difference of two day times (16 d 3 h)
    assert(ylen(y) + cb - ca >= 32) by {
        lemma_cum(a.month as int, leap(y));
        lemma_cum(12, leap(y));
        if a.month < 12 {
            lemma_cum_mono(a.month as int, 12, leap(y));
        }
    }
}

// within one year a day of month ma is before a day of month mb when at least one whole month lies between them
proof fn lemma_mm_far_same(a: MonthWeekDay, ta: int, b: MonthWeekDay, tb: int, y: int)
    requires
        mwd_wf(a),
        mwd_wf(b),
        day_time_ok(ta),
        day_time_ok(tb),
        a.month + 2 <= b.month,
    ensures
        rd_instant(RuleDay::MonthWeekDay(a), ta, y) <= rd_instant(RuleDay::MonthWeekDay(b), tb, y),
{
    hide(dby);
    hide(rd_instant);
    lemma_mwd_bounds(a, ta, y);
    lemma_mwd_bounds(b, tb, y);
    let ca = cum(a.month as int, leap(y)) + dim(a.month as int, leap(y)) - 1;
    let cb = cum(b.month as int, leap(y));
    assert(cb - ca >= 29) by {
        lemma_cum(a.month as int, leap(y));
        lemma_cum(a.month as int + 1, leap(y));
        if a.month + 2 < b.month {
            lemma_cum_mono(a.month as int + 2, b.month as int, leap(y));
        }
    }
}

// ---- assembly: two Mm.w.d days --------------------------------------------------------------------------

// both cross-year relations hold (first day before the other day of the following year) unless December meets January
proof fn lemma_mm_cross(a: MonthWeekDay, ta: int, b: MonthWeekDay, tb: int)
    requires
        mwd_wf(a),
        mwd_wf(b),
        day_time_ok(ta),
        day_time_ok(tb),
        !(a.month == 12 && b.month == 1),
    ensures
        forall|y: int| #[trigger] rd_instant(RuleDay::MonthWeekDay(a), ta, y) <= rd_instant(RuleDay::MonthWeekDay(b), tb, y + 1),
{
    assert forall|y: int| #[trigger] rd_instant(RuleDay::MonthWeekDay(a), ta, y) <= rd_instant(RuleDay::MonthWeekDay(b), tb, y + 1) by {
        lemma_mm_far_next(a, ta, b, tb, y);
    }
}

proof fn lemma_mm_same_far(a: MonthWeekDay, ta: int, b: MonthWeekDay, tb: int)
    requires
        mwd_wf(a),
        mwd_wf(b),
        day_time_ok(ta),
        day_time_ok(tb),
        a.month + 2 <= b.month,
    ensures
        forall|y: int| rd_instant(RuleDay::MonthWeekDay(a), ta, y) <= #[trigger] rd_instant(RuleDay::MonthWeekDay(b), tb, y),
{
    assert forall|y: int| rd_instant(RuleDay::MonthWeekDay(a), ta, y) <= #[trigger] rd_instant(RuleDay::MonthWeekDay(b), tb, y) by {
        lemma_mm_far_same(a, ta, b, tb, y);
    }
}

// the close relation of a sorted pair within one year, in the trigger shape of pair_stable
proof fn lemma_mm_sorted_same_year(mbv: MonthWeekDay, tb: int, mav: MonthWeekDay, ta: int, adj: bool)
    requires
        mwd_wf(mbv),
        mwd_wf(mav),
        day_time_ok(tb),
        day_time_ok(ta),
        mav.month as int == mm_after_month(mbv.month as int, adj),
        adj || mbv.week <= mav.week,
        !(adj && mbv.month == 12),
    ensures
        ((forall|y: int| rd_instant(RuleDay::MonthWeekDay(mbv), tb, y) <= #[trigger] rd_instant(RuleDay::MonthWeekDay(mav), ta, y))
            || (forall|y: int| rd_instant(RuleDay::MonthWeekDay(mav), ta, y) <= #[trigger] rd_instant(RuleDay::MonthWeekDay(mbv), tb, y)))
            == mm_sorted_decision(mbv, tb, mav, ta),
{
    hide(rule_daynum);
    hide(mm_sorted_decision);
    lemma_mm_sorted(mbv, tb, mav, ta, adj);
    let rb = RuleDay::MonthWeekDay(mbv);
    let ra = RuleDay::MonthWeekDay(mav);
    assert forall|y: int| mm_after_year(mbv.month as int, adj, y) == y by {}
    let p1 = forall|y: int| #[trigger] rd_instant(rb, tb, y) <= rd_instant(ra, ta, mm_after_year(mbv.month as int, adj, y));
    let q1 = forall|y: int| rd_instant(rb, tb, y) <= #[trigger] rd_instant(ra, ta, y);
    let p2 = forall|y: int| rd_instant(ra, ta, mm_after_year(mbv.month as int, adj, y)) <= #[trigger] rd_instant(rb, tb, y);
    let q2 = forall|y: int| rd_instant(ra, ta, y) <= #[trigger] rd_instant(rb, tb, y);
    assert(p1 == q1) by {
        if p1 {
            assert forall|y: int| rd_instant(rb, tb, y) <= #[trigger] rd_instant(ra, ta, y) by {
                assert(rd_instant(rb, tb, y) <= rd_instant(ra, ta, mm_after_year(mbv.month as int, adj, y)));
            }
        }
        if q1 {
            assert forall|y: int| #[trigger] rd_instant(rb, tb, y) <= rd_instant(ra, ta, mm_after_year(mbv.month as int, adj, y)) by {
                assert(rd_instant(rb, tb, y) <= rd_instant(ra, ta, y));
            }
        }
    }
    assert(p2 == q2) by {
        if p2 {
            assert forall|y: int| rd_instant(ra, ta, y) <= #[trigger] rd_instant(rb, tb, y) by {
                assert(rd_instant(ra, ta, mm_after_year(mbv.month as int, adj, y)) <= rd_instant(rb, tb, y));
            }
        }
        if q2 {
            assert forall|y: int| rd_instant(ra, ta, mm_after_year(mbv.month as int, adj, y)) <= #[trigger] rd_instant(rb, tb, y) by {
                assert(rd_instant(ra, ta, y) <= rd_instant(rb, tb, y));
            }
        }
    }
}

// December (year y) against January (year y + 1), in the trigger shape of pair_stable
proof fn lemma_mm_sorted_wrap(mbv: MonthWeekDay, tb: int, mav: MonthWeekDay, ta: int)
    requires
        mwd_wf(mbv),
        mwd_wf(mav),
        day_time_ok(tb),
        day_time_ok(ta),
        mbv.month == 12,
        mav.month == 1,
    ensures
        ((forall|y: int| #[trigger] rd_instant(RuleDay::MonthWeekDay(mbv), tb, y) <= rd_instant(RuleDay::MonthWeekDay(mav), ta, y + 1))
            || (forall|y: int| rd_instant(RuleDay::MonthWeekDay(mav), ta, y + 1) <= #[trigger] rd_instant(RuleDay::MonthWeekDay(mbv), tb, y)))
            == mm_sorted_decision(mbv, tb, mav, ta),
{
    hide(rule_daynum);
    hide(mm_sorted_decision);
    lemma_mm_sorted(mbv, tb, mav, ta, true);
    let rb = RuleDay::MonthWeekDay(mbv);
    let ra = RuleDay::MonthWeekDay(mav);
    assert forall|y: int| mm_after_year(mbv.month as int, true, y) == y + 1 by {}
    let p1 = forall|y: int| #[trigger] rd_instant(rb, tb, y) <= rd_instant(ra, ta, mm_after_year(mbv.month as int, true, y));
    let q1 = forall|y: int| #[trigger] rd_instant(rb, tb, y) <= rd_instant(ra, ta, y + 1);
    let p2 = forall|y: int| rd_instant(ra, ta, mm_after_year(mbv.month as int, true, y)) <= #[trigger] rd_instant(rb, tb, y);
    let q2 = forall|y: int| rd_instant(ra, ta, y + 1) <= #[trigger] rd_instant(rb, tb, y);
    assert(p1 == q1);
    assert(p2 == q2);
}

proof fn lemma_mm_stable(m1: MonthWeekDay, t1: int, m2: MonthWeekDay, t2: int)
    requires
        mwd_wf(m1),
        mwd_wf(m2),
        day_time_ok(t1),
        day_time_ok(t2),
    ensures
        pair_stable(RuleDay::MonthWeekDay(m1), t1, RuleDay::MonthWeekDay(m2), t2) == mm_decision(m1, t1, m2, t2),
{
    hide(rule_daynum);
    hide(rd_instant);
    hide(mm_sorted_decision);
    let rem = (m2.month as int - m1.month as int) % 12;
    if m1.month == 12 && m2.month == 1 {
        assert(rem == 1);
        lemma_mm_sorted_wrap(m1, t1, m2, t2);
        lemma_mm_same_far(m2, t2, m1, t1);
        lemma_mm_cross(m2, t2, m1, t1);
    } else if m2.month == 12 && m1.month == 1 {
        assert(rem == 11);
        lemma_mm_sorted_wrap(m2, t2, m1, t1);
        lemma_mm_same_far(m1, t1, m2, t2);
        lemma_mm_cross(m1, t1, m2, t2);
    } else {
        lemma_mm_cross(m2, t2, m1, t1);
        lemma_mm_cross(m1, t1, m2, t2);
        if rem == 0 {
            assert(m1.month == m2.month);
            if m1.week <= m2.week {
                lemma_mm_sorted_same_year(m1, t1, m2, t2, false);
            } else {
                lemma_mm_sorted_same_year(m2, t2, m1, t1, false);
            }
        } else if rem == 1 {
            assert(m2.month == m1.month + 1);
            lemma_mm_sorted_same_year(m1, t1, m2, t2, true);
        } else if rem == 11 {
            assert(m1.month == m2.month + 1);
            lemma_mm_sorted_same_year(m2, t2, m1, t1, true);
        } else if m1.month < m2.month {
            assert(m1.month + 2 <= m2.month);
            lemma_mm_same_far(m1, t1, m2, t2);
        } else {
            assert(m2.month + 2 <= m1.month);
            lemma_mm_same_far(m2, t2, m1, t1);
        }
    }
}
