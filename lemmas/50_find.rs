// lemmas about result lists (C17) and the local-time search (C05 / C06 / C14)

// one more push: the abstract view after `rs` followed by `k` (from the trait contract of push)
proof fn lemma_list_step<L: DateTimeList + ?Sized>(l0: &L, rs: Seq<FoundDateTimeKind>, pre: &L, k: FoundDateTimeKind, post: &L)
    requires
        list_after(l0, rs, pre),
        post.inv(),
        post.cap() == pre.cap(),
        post.total() == pre.total() + 1,
        post.room() == pre.room() - 1,
        post.stored() == take_cap(pre.stored().push(k), pre.cap()),
        forall|i: int| i >= post.stored().len() ==> post.slot(i) == pre.slot(i),
    ensures
        list_after(l0, rs.push(k), post),
{
    let s0 = l0.stored();
    let cap = l0.cap();
    assert(s0 + rs.push(k) =~= (s0 + rs).push(k));
    if (s0 + rs).len() <= cap {
        assert(take_cap(s0 + rs, cap) == s0 + rs);
        if (s0 + rs).len() + 1 > cap {
            assert((s0 + rs).push(k).subrange(0, cap as int) =~= s0 + rs);
        }
    } else {
        let p = (s0 + rs).subrange(0, cap as int);
        assert(p.push(k).subrange(0, cap as int) =~= p);
        assert((s0 + rs).push(k).subrange(0, cap as int) =~= p);
    }
}

proof fn lemma_list_start<L: DateTimeList + ?Sized>(l0: &L)
    requires
        l0.inv(),
        l0.stored().len() <= l0.cap(),
    ensures
        list_after(l0, Seq::<FoundDateTimeKind>::empty(), l0),
{
    assert(l0.stored() + Seq::<FoundDateTimeKind>::empty() =~= l0.stored());
}

proof fn lemma_secs_bound(year: int, month: int, month_day: int, hour: int, minute: int, second: int)
    requires
        -2147483648 <= year <= 2147483647,
        valid_date(year, month, month_day),
        0 <= hour <= 23,
        0 <= minute <= 59,
        0 <= second <= 60,
    ensures
        civil_secs_bounded(secs(year, month, month_day, hour, minute, second)),
{
    lemma_secs_in_year(year, month, month_day, hour, minute, second);
    lemma_dby_bounds(year);
    lemma_dby_bounds(year + 1);
}

proof fn lemma_all_inv_push(rs: Seq<FoundDateTimeKind>, k: FoundDateTimeKind)
    requires
        all_kind_inv(rs),
        kind_inv(k),
    ensures
        all_kind_inv(rs.push(k)),
{
}

// C17 for the allocation-free list: a fresh list over a buffer of n slots after the k pushes `rs` holds exactly the first
// min(n, k) of them in order, reports k as the count, is exhaustive exactly when n >= k, and every slot from min(n, k) on
// still has its previous (stale) content
proof fn prop_c17_buffer(l0: FoundDateTimeListRefMut, rs: Seq<FoundDateTimeKind>, l1: FoundDateTimeListRefMut)
    requires
        l0.inv(),
        l0.current_index == 0,
        l0.count == 0,
        list_after(&l0, rs, &l1),
    ensures
        refmut_result(refmut_bv(l0), rs, l1),
{
    let n = refmut_bv(l0).len() as int;
    let k = rs.len() as int;
    let m = if n <= k { n } else { k };
    assert(l0.stored() =~= Seq::<FoundDateTimeKind>::empty());
    assert(l0.stored() + rs =~= rs);
    assert(l1.stored().len() == m);
    assert forall|i: int| 0 <= i < m implies refmut_bv(l1)[i] == Some(rs[i]) by {
        assert(l1.stored()[i] == rs[i]);
        assert(refmut_bv(l1)[i] is Some);
    }
    assert forall|i: int| m <= i < n implies refmut_bv(l1)[i] == refmut_bv(l0)[i] by {
        assert(l1.slot(i) == l0.slot(i));
    }
}

// C17 for the allocating list: it holds all k results in order
proof fn prop_c17_vec(l0: FoundDateTimeList, rs: Seq<FoundDateTimeKind>, l1: FoundDateTimeList)
    requires
        l0.0@.len() == 0,
        list_after(&l0, rs, &l1),
    ensures
        l1.0@ == rs,
{
    assert(l0.stored() + rs =~= rs);
}

// every UTC instant has a count (the scan of unix_time_to_unix_leap_time, as a recursion)
proof fn lemma_f_exists(s: Seq<LeapSecond>, u: int, i: int)
    requires
        leaps_wf(s),
        0 <= i <= s.len(),
        i > 0 ==> u + leap_prev_corr(s, i - 1) >= s[i - 1].unix_leap_time,
    ensures
        exists|t: int| #[trigger] is_f(s, u, t) && u - 2147483648 <= t <= u + 2147483647,
    decreases s.len() - i,
{
    if i == s.len() || u + leap_prev_corr(s, i) < s[i].unix_leap_time {
        lemma_f_post(s, u, i);
        assert(is_f(s, u, u + leap_prev_corr(s, i)));
    } else {
        lemma_f_exists(s, u, i + 1);
    }
}

proof fn lemma_normals_sound_push(z: TimeZoneRef, q: FindQuery, rs: Seq<FoundDateTimeKind>, k: FoundDateTimeKind)
    requires
        normals_sound(z, q, rs),
        normal_sound(z, q, k),
    ensures
        normals_sound(z, q, rs.push(k)),
{
}

proof fn lemma_gaps_sound_push(z: TimeZoneRef, q: FindQuery, rs: Seq<FoundDateTimeKind>, k: FoundDateTimeKind)
    requires
        gaps_sound(z, q, rs),
        gap_sound(z, q, k),
    ensures
        gaps_sound(z, q, rs.push(k)),
{
}

proof fn lemma_has_gap_push(z: TimeZoneRef, q: FindQuery, i: int, rs: Seq<FoundDateTimeKind>, k: FoundDateTimeKind)
    requires
        has_gap(z, q, i, rs) || table_gap(z, q, i, k),
    ensures
        has_gap(z, q, i, rs.push(k)),
{
    if has_gap(z, q, i, rs) {
        let j = choose|j: int| 0 <= j < rs.len() && #[trigger] table_gap(z, q, i, rs[j]);
        assert(table_gap(z, q, i, rs.push(k)[j]));
    } else {
        assert(table_gap(z, q, i, rs.push(k)[rs.len() as int]));
    }
}

proof fn lemma_gaps_push(z: TimeZoneRef, q: FindQuery, rs: Seq<FoundDateTimeKind>, n: int, k: FoundDateTimeKind)
    requires
        gaps_found(z, q, rs, n),
    ensures
        gaps_found(z, q, rs.push(k), n),
{
    assert forall|i: int| 0 <= i < n && #[trigger] gap_cond(z, q, i) implies has_gap(z, q, i, rs.push(k)) by {
        lemma_has_gap_push(z, q, i, rs, k);
    }
}

// the candidate of a fixed trailing rule: at or after the last transition's instant (or with an empty table) the lookup answers the rule's type
proof fn lemma_fixed_sound(z: TimeZoneRef, q: FindQuery, u: int, lt: LocalTimeType)
    requires
        zone_wf_base(z),
        *z.extra_rule == Some(TransitionRule::Fixed(lt)),
        utc_min() <= u <= utc_max(),
        z.transitions@.len() > 0 ==> u >= g_spec(z.leap_seconds@, z.transitions@[z.transitions@.len() - 1].unix_leap_time as int),
    ensures
        lookup_ok(z, u, lt),
{
    lemma_range_consts();
    if z.transitions@.len() == 0 {
        lemma_lookup_cases(z, u, 0);
    } else {
        lemma_f_exists(z.leap_seconds@, u, 0);
        let t = choose|t: int| #[trigger] is_f(z.leap_seconds@, u, t) && u - 2147483648 <= t <= u + 2147483647;
        prop_c12_galois(z.leap_seconds@, u, t, z.transitions@[z.transitions@.len() - 1].unix_leap_time as int);
        lemma_lookup_cases(z, u, t);
    }
}

proof fn lemma_has_normal_push(rs: Seq<FoundDateTimeKind>, dt: DateTime, k: FoundDateTimeKind)
    requires
        has_normal(rs, dt) || k == FoundDateTimeKind::Normal(dt),
    ensures
        has_normal(rs.push(k), dt),
{
    if has_normal(rs, dt) {
        let j = choose|j: int| 0 <= j < rs.len() && #[trigger] rs[j] == FoundDateTimeKind::Normal(dt);
        assert(rs.push(k)[j] == FoundDateTimeKind::Normal(dt));
    } else {
        assert(rs.push(k)[rs.len() as int] == FoundDateTimeKind::Normal(dt));
    }
}

proof fn lemma_slots_push(z: TimeZoneRef, q: FindQuery, rs: Seq<FoundDateTimeKind>, n: int, k: FoundDateTimeKind)
    requires
        slots_found(z, q, rs, n),
    ensures
        slots_found(z, q, rs.push(k), n),
{
    assert forall|i: int| 0 <= i < n && #[trigger] slot_hit(z, q, i) implies i64::MIN <= slot_cand(z, q, i) <= i64::MAX
        && has_normal(rs.push(k), q_dt(q, type_before(z, i), slot_cand(z, q, i) as i64)) by {
        lemma_has_normal_push(rs, q_dt(q, type_before(z, i), slot_cand(z, q, i) as i64), k);
    }
}

// end of iteration n of the table loop: slot n is settled (its candidate was reported, or it does not fall into the slot)
proof fn lemma_slots_next(z: TimeZoneRef, q: FindQuery, rs: Seq<FoundDateTimeKind>, n: int, tb: int, hit: bool)
    requires
        leaps_wf(z.leap_seconds@),
        slots_found(z, q, rs, n),
        0 <= n < z.transitions@.len(),
        is_f(z.leap_seconds@, slot_cand(z, q, n), tb),
        hit == ((n > 0 ==> z.transitions@[n - 1].unix_leap_time <= tb) && tb < z.transitions@[n].unix_leap_time),
        hit ==> i64::MIN <= slot_cand(z, q, n) <= i64::MAX && has_normal(rs, q_dt(q, type_before(z, n), slot_cand(z, q, n) as i64)),
    ensures
        slots_found(z, q, rs, n + 1),
{
    if !hit && slot_hit(z, q, n) {
        let t = choose|t: int| #[trigger] is_f(z.leap_seconds@, slot_cand(z, q, n), t) && (n > 0 ==> z.transitions@[n - 1].unix_leap_time <= t) && t < z.transitions@[n].unix_leap_time;
        prop_c12_f_unique(z.leap_seconds@, slot_cand(z, q, n), t, tb);
    }
}

proof fn lemma_order_push(rs: Seq<FoundDateTimeKind>, k: FoundDateTimeKind, b: int, b2: int)
    requires
        entries_below(rs, b),
        b <= entry_key(k) <= b2,
        k is Normal ==> entry_key(k) < b2,
    ensures
        entries_ascending(rs) ==> entries_ascending(rs.push(k)),
        normals_increasing(rs) ==> normals_increasing(rs.push(k)),
        entries_below(rs.push(k), b2),
{
}

proof fn lemma_below_mono(rs: Seq<FoundDateTimeKind>, b: int, b2: int)
    requires
        entries_below(rs, b),
        b <= b2,
    ensures
        entries_below(rs, b2),
{
}

// a count between the first and the last transition lies in exactly one slot; here: in some slot
proof fn lemma_find_slot(tr: Seq<Transition>, t: int, j: int)
    requires
        0 <= j < tr.len() - 1,
        tr[j].unix_leap_time <= t,
        t < tr[tr.len() - 1].unix_leap_time,
    ensures
        exists|i: int| #[trigger] in_slot(tr, i, t),
    decreases tr.len() - j,
{
    if t < tr[j + 1].unix_leap_time {
        assert(in_slot(tr, j, t));
    } else {
        lemma_find_slot(tr, t, j + 1);
    }
}

// C05 completeness for a zone with a table and no DST rule, from the loop's slot-by-slot record and the fixed rule's decision
proof fn lemma_all_found_table(z: TimeZoneRef, q: FindQuery, rs: Seq<FoundDateTimeKind>)
    requires
        zone_wf_base(z),
        z.transitions@.len() > 0,
        slots_found(z, q, rs, z.transitions@.len() as int),
        civil_secs_bounded(q_civil(q)),
        !rule_is_alternate(z),
        match *z.extra_rule {
            Some(TransitionRule::Fixed(flt)) => q_civil(q) - flt.ut_offset >= g_spec(z.leap_seconds@, z.transitions@[z.transitions@.len() - 1].unix_leap_time as int)
                ==> has_normal(rs, q_dt(q, flt, (q_civil(q) - flt.ut_offset) as i64)),
            _ => true,
        },
    ensures
        all_found(z, q, rs),
{
    let tr = z.transitions@;
    let n = tr.len() as int;
    assert forall|u: int, lt: LocalTimeType| #[trigger] clock_shows(z, q, u, lt) implies i64::MIN <= u <= i64::MAX && has_normal(rs, q_dt(q, lt, u as i64)) by {
        let t = choose|t: int| #[trigger] is_f(z.leap_seconds@, u, t) && i64::MIN <= t <= i64::MAX && (
            if t >= tr[n - 1].unix_leap_time {
                match *z.extra_rule {
                    Some(rule) => rule_answer(rule, u, lt),
                    None => false,
                }
            } else {
                table_type_is(tr, z.local_time_types@, t, lt)
            });
        if t >= tr[n - 1].unix_leap_time {
            prop_c12_galois(z.leap_seconds@, u, t, tr[n - 1].unix_leap_time as int);
        } else if t < tr[0].unix_leap_time {
            assert(u == slot_cand(z, q, 0));
            assert(slot_hit(z, q, 0));
        } else {
            lemma_find_slot(tr, t, 0);
            let i = choose|i: int| #[trigger] in_slot(tr, i, t);
            assert(lt == type_before(z, i + 1));
            assert(u == slot_cand(z, q, i + 1));
            assert(slot_hit(z, q, i + 1));
        }
    }
}

// C05 completeness for a zone without table
proof fn lemma_all_found_no_table(z: TimeZoneRef, q: FindQuery, rs: Seq<FoundDateTimeKind>, lt0: LocalTimeType)
    requires
        z.transitions@.len() == 0,
        z.local_time_types@.len() > 0,
        civil_secs_bounded(q_civil(q)),
        match *z.extra_rule {
            Some(TransitionRule::Fixed(flt)) => lt0 == flt,
            Some(TransitionRule::Alternate(_)) => false,
            None => lt0 == z.local_time_types@[0],
        },
        has_normal(rs, q_dt(q, lt0, (q_civil(q) - lt0.ut_offset) as i64)),
    ensures
        all_found(z, q, rs),
{
}

// C06: with results ascending by instant, the first and the last entry are the true extremes
proof fn prop_c06_extremes(rs: Seq<FoundDateTimeKind>, j: int)
    requires
        entries_ascending(rs),
        all_kind_inv(rs),
        0 <= j < rs.len(),
    ensures
        entry_earliest(rs[0]).unix_time <= entry_key(rs[j]),
        entry_key(rs[j]) <= entry_key(rs[rs.len() - 1]),
{
}
