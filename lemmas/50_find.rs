// lemmas about result lists (C17) and the local-time search (C05 / C06 / C14)

// one more push: the abstract view after `rs` followed by `k` (from the trait contract of push)
proof fn lemma_list_step<L: DateTimeList + ?Sized>(l0: &L, rs: Seq<FoundDateTimeKind>, pre: &L, k: FoundDateTimeKind, post: &L)
    requires
        list_after(l0, rs, pre),
        post.inv(),
        post.cap() == pre.cap(),
        post.total() == pre.total() + 1,
        post.room() == pre.room() - 1,
        post.stored() == take_cap(pre.stored().push(k), pre.cap()),
        forall|i: int| i >= post.stored().len() ==> post.slot(i) == pre.slot(i),
    ensures
        list_after(l0, rs.push(k), post),
{
    let s0 = l0.stored();
    let cap = l0.cap();
    assert(s0 + rs.push(k) =~= (s0 + rs).push(k));
    if (s0 + rs).len() <= cap {
        assert(take_cap(s0 + rs, cap) == s0 + rs);
        if (s0 + rs).len() + 1 > cap {
            assert((s0 + rs).push(k).subrange(0, cap as int) =~= s0 + rs);
        }
    } else {
        let p = (s0 + rs).subrange(0, cap as int);
        assert(p.push(k).subrange(0, cap as int) =~= p);
        assert((s0 + rs).push(k).subrange(0, cap as int) =~= p);
    }
}

proof fn lemma_list_start<L: DateTimeList + ?Sized>(l0: &L)
    requires
        l0.inv(),
        l0.stored().len() <= l0.cap(),
    ensures
        list_after(l0, Seq::<FoundDateTimeKind>::empty(), l0),
{
    assert(l0.stored() + Seq::<FoundDateTimeKind>::empty() =~= l0.stored());
}

proof fn lemma_secs_bound(year: int, month: int, month_day: int, hour: int, minute: int, second: int)
    requires
        -2147483648 <= year <= 2147483647,
        valid_date(year, month, month_day),
        0 <= hour <= 23,
        0 <= minute <= 59,
        0 <= second <= 60,
    ensures
        civil_secs_bounded(secs(year, month, month_day, hour, minute, second)),
{
    lemma_secs_in_year(year, month, month_day, hour, minute, second);
    lemma_dby_bounds(year);
    lemma_dby_bounds(year + 1);
}

proof fn lemma_all_inv_push(rs: Seq<FoundDateTimeKind>, k: FoundDateTimeKind)
    requires
        all_kind_inv(rs),
        kind_inv(k),
    ensures
        all_kind_inv(rs.push(k)),
{
}

// C17 for the allocation-free list: a fresh list over a buffer of n slots after the k pushes `rs` holds exactly the first
// min(n, k) of them in order, reports k as the count, is exhaustive exactly when n >= k, and every slot from min(n, k) on
// still has its previous (stale) content
proof fn prop_c17_buffer(l0: FoundDateTimeListRefMut, rs: Seq<FoundDateTimeKind>, l1: FoundDateTimeListRefMut)
    requires
        l0.inv(),
        l0.current_index == 0,
        l0.count == 0,
        list_after(&l0, rs, &l1),
    ensures
        refmut_result(refmut_bv(l0), rs, l1),
{
    let n = refmut_bv(l0).len() as int;
    let k = rs.len() as int;
    let m = if n <= k { n } else { k };
    assert(l0.stored() =~= Seq::<FoundDateTimeKind>::empty());
    assert(l0.stored() + rs =~= rs);
    assert(l1.stored().len() == m);
    assert forall|i: int| 0 <= i < m implies refmut_bv(l1)[i] == Some(rs[i]) by {
        assert(l1.stored()[i] == rs[i]);
        assert(refmut_bv(l1)[i] is Some);
    }
    assert forall|i: int| m <= i < n implies refmut_bv(l1)[i] == refmut_bv(l0)[i] by {
        assert(l1.slot(i) == l0.slot(i));
    }
}

// C17 for the allocating list: it holds all k results in order
proof fn prop_c17_vec(l0: FoundDateTimeList, rs: Seq<FoundDateTimeKind>, l1: FoundDateTimeList)
    requires
        l0.0@.len() == 0,
        list_after(&l0, rs, &l1),
    ensures
        l1.0@ == rs,
{
    assert(l0.stored() + rs =~= rs);
}

// every UTC instant has a count (the scan of unix_time_to_unix_leap_time, as a recursion)
proof fn lemma_f_exists(s: Seq<LeapSecond>, u: int, i: int)
    requires
        leaps_wf(s),
        0 <= i <= s.len(),
        i > 0 ==> u + leap_prev_corr(s, i - 1) >= s[i - 1].unix_leap_time,
    ensures
        exists|t: int| #[trigger] is_f(s, u, t) && u - 2147483648 <= t <= u + 2147483647,
    decreases s.len() - i,
{
    if i == s.len() || u + leap_prev_corr(s, i) < s[i].unix_leap_time {
        lemma_f_post(s, u, i);
        assert(is_f(s, u, u + leap_prev_corr(s, i)));
    } else {
        lemma_f_exists(s, u, i + 1);
    }
}

proof fn lemma_normals_sound_push(z: TimeZoneRef, q: FindQuery, rs: Seq<FoundDateTimeKind>, k: FoundDateTimeKind)
    requires
        normals_sound(z, q, rs),
        normal_sound(z, q, k),
    ensures
        normals_sound(z, q, rs.push(k)),
{
}

proof fn lemma_gaps_sound_push(z: TimeZoneRef, q: FindQuery, rs: Seq<FoundDateTimeKind>, k: FoundDateTimeKind)
    requires
        gaps_sound(z, q, rs),
        gap_sound(z, q, k),
    ensures
        gaps_sound(z, q, rs.push(k)),
{
}

proof fn lemma_has_gap_push(z: TimeZoneRef, q: FindQuery, i: int, rs: Seq<FoundDateTimeKind>, k: FoundDateTimeKind)
    requires
        has_gap(z, q, i, rs) || table_gap(z, q, i, k),
    ensures
        has_gap(z, q, i, rs.push(k)),
{
    if has_gap(z, q, i, rs) {
        let j = choose|j: int| 0 <= j < rs.len() && #[trigger] table_gap(z, q, i, rs[j]);
        assert(table_gap(z, q, i, rs.push(k)[j]));
    } else {
        assert(table_gap(z, q, i, rs.push(k)[rs.len() as int]));
    }
}

proof fn lemma_gaps_push(z: TimeZoneRef, q: FindQuery, rs: Seq<FoundDateTimeKind>, n: int, k: FoundDateTimeKind)
    requires
        gaps_found(z, q, rs, n),
    ensures
        gaps_found(z, q, rs.push(k), n),
{
    assert forall|i: int| 0 <= i < n && #[trigger] gap_cond(z, q, i) implies has_gap(z, q, i, rs.push(k)) by {
        lemma_has_gap_push(z, q, i, rs, k);
    }
}

// the candidate of a fixed trailing rule: at or after the last transition's instant (or with an empty table) the lookup answers the rule's type
proof fn lemma_fixed_sound(z: TimeZoneRef, q: FindQuery, u: int, lt: LocalTimeType)
    requires
        zone_wf_base(z),
        *z.extra_rule == Some(TransitionRule::Fixed(lt)),
        utc_min() <= u <= utc_max(),
        z.transitions@.len() > 0 ==> u >= g_spec(z.leap_seconds@, z.transitions@[z.transitions@.len() - 1].unix_leap_time as int),
    ensures
        lookup_ok(z, u, lt),
{
    lemma_range_consts();
    if z.transitions@.len() == 0 {
        lemma_lookup_cases(z, u, 0);
    } else {
        lemma_f_exists(z.leap_seconds@, u, 0);
        let t = choose|t: int| #[trigger] is_f(z.leap_seconds@, u, t) && u - 2147483648 <= t <= u + 2147483647;
        prop_c12_galois(z.leap_seconds@, u, t, z.transitions@[z.transitions@.len() - 1].unix_leap_time as int);
        lemma_lookup_cases(z, u, t);
    }
}

proof fn lemma_has_normal_push(rs: Seq<FoundDateTimeKind>, dt: DateTime, k: FoundDateTimeKind)
    requires
        has_normal(rs, dt) || k == FoundDateTimeKind::Normal(dt),
    ensures
        has_normal(rs.push(k), dt),
{
    if has_normal(rs, dt) {
        let j = choose|j: int| 0 <= j < rs.len() && #[trigger] rs[j] == FoundDateTimeKind::Normal(dt);
        assert(rs.push(k)[j] == FoundDateTimeKind::Normal(dt));
    } else {
        assert(rs.push(k)[rs.len() as int] == FoundDateTimeKind::Normal(dt));
    }
}

proof fn lemma_slots_push(z: TimeZoneRef, q: FindQuery, rs: Seq<FoundDateTimeKind>, n: int, k: FoundDateTimeKind)
    requires
        slots_found(z, q, rs, n),
    ensures
        slots_found(z, q, rs.push(k), n),
{
    assert forall|i: int| 0 <= i < n && #[trigger] slot_hit(z, q, i) implies i64::MIN <= slot_cand(z, q, i) <= i64::MAX
        && has_normal(rs.push(k), q_dt(q, type_before(z, i), slot_cand(z, q, i) as i64)) by {
        lemma_has_normal_push(rs, q_dt(q, type_before(z, i), slot_cand(z, q, i) as i64), k);
    }
}

// end of iteration n of the table loop: slot n is settled (its candidate was reported, or it does not fall into the slot)
proof fn lemma_slots_next(z: TimeZoneRef, q: FindQuery, rs: Seq<FoundDateTimeKind>, n: int, tb: int, hit: bool)
    requires
        leaps_wf(z.leap_seconds@),
        slots_found(z, q, rs, n),
        0 <= n < z.transitions@.len(),
        is_f(z.leap_seconds@, slot_cand(z, q, n), tb),
        hit == ((n > 0 ==> z.transitions@[n - 1].unix_leap_time <= tb) && tb < z.transitions@[n].unix_leap_time),
        hit ==> i64::MIN <= slot_cand(z, q, n) <= i64::MAX && has_normal(rs, q_dt(q, type_before(z, n), slot_cand(z, q, n) as i64)),
    ensures
        slots_found(z, q, rs, n + 1),
{
    if !hit && slot_hit(z, q, n) {
        let t = choose|t: int| #[trigger] is_f(z.leap_seconds@, slot_cand(z, q, n), t) && (n > 0 ==> z.transitions@[n - 1].unix_leap_time <= t) && t < z.transitions@[n].unix_leap_time;
        prop_c12_f_unique(z.leap_seconds@, slot_cand(z, q, n), t, tb);
    }
}

proof fn lemma_order_push(rs: Seq<FoundDateTimeKind>, k: FoundDateTimeKind, b: int, b2: int)
    requires
        entries_below(rs, b),
        b <= entry_key(k) <= b2,
        k is Normal ==> entry_key(k) < b2,
    ensures
        entries_ascending(rs) ==> entries_ascending(rs.push(k)),
        normals_increasing(rs) ==> normals_increasing(rs.push(k)),
        entries_below(rs.push(k), b2),
{
}

proof fn lemma_below_mono(rs: Seq<FoundDateTimeKind>, b: int, b2: int)
    requires
        entries_below(rs, b),
        b <= b2,
    ensures
        entries_below(rs, b2),
{
}

// a count between the first and the last transition lies in exactly one slot; here: in some slot
proof fn lemma_find_slot(tr: Seq<Transition>, t: int, j: int)
    requires
        0 <= j < tr.len() - 1,
        tr[j].unix_leap_time <= t,
        t < tr[tr.len() - 1].unix_leap_time,
    ensures
        exists|i: int| #[trigger] in_slot(tr, i, t),
    decreases tr.len() - j,
{
    if t < tr[j + 1].unix_leap_time {
        assert(in_slot(tr, j, t));
    } else {
        lemma_find_slot(tr, t, j + 1);
    }
}

// C05 completeness for a zone with a table and no DST rule, from the loop's slot-by-slot record and the fixed rule's decision
proof fn lemma_all_found_table(z: TimeZoneRef, q: FindQuery, rs: Seq<FoundDateTimeKind>)
    requires
        zone_wf_base(z),
        z.transitions@.len() > 0,
        slots_found(z, q, rs, z.transitions@.len() as int),
        civil_secs_bounded(q_civil(q)),
        !rule_is_alternate(z),
        match *z.extra_rule {
            Some(TransitionRule::Fixed(flt)) => q_civil(q) - flt.ut_offset >= g_spec(z.leap_seconds@, z.transitions@[z.transitions@.len() - 1].unix_leap_time as int)
                ==> has_normal(rs, q_dt(q, flt, (q_civil(q) - flt.ut_offset) as i64)),
            _ => true,
        },
    ensures
        all_found(z, q, rs),
{
    let tr = z.transitions@;
    let n = tr.len() as int;
    assert forall|u: int, lt: LocalTimeType| #[trigger] clock_shows(z, q, u, lt) implies i64::MIN <= u <= i64::MAX && has_normal(rs, q_dt(q, lt, u as i64)) by {
        let t = choose|t: int| #[trigger] is_f(z.leap_seconds@, u, t) && i64::MIN <= t <= i64::MAX && (
            if t >= tr[n - 1].unix_leap_time {
                match *z.extra_rule {
                    Some(rule) => rule_answer(rule, u, lt),
                    None => false,
                }
            } else {
                table_type_is(tr, z.local_time_types@, t, lt)
            });
        if t >= tr[n - 1].unix_leap_time {
            prop_c12_galois(z.leap_seconds@, u, t, tr[n - 1].unix_leap_time as int);
        } else if t < tr[0].unix_leap_time {
            assert(u == slot_cand(z, q, 0));
            assert(slot_hit(z, q, 0));
        } else {
            lemma_find_slot(tr, t, 0);
            let i = choose|i: int| #[trigger] in_slot(tr, i, t);
            assert(lt == type_before(z, i + 1));
            assert(u == slot_cand(z, q, i + 1));
            assert(slot_hit(z, q, i + 1));
        }
    }
}

// C05 completeness for a zone without table
proof fn lemma_all_found_no_table(z: TimeZoneRef, q: FindQuery, rs: Seq<FoundDateTimeKind>, lt0: LocalTimeType)
    requires
        z.transitions@.len() == 0,
        z.local_time_types@.len() > 0,
        civil_secs_bounded(q_civil(q)),
        match *z.extra_rule {
            Some(TransitionRule::Fixed(flt)) => lt0 == flt,
            Some(TransitionRule::Alternate(_)) => false,
            None => lt0 == z.local_time_types@[0],
        },
        has_normal(rs, q_dt(q, lt0, (q_civil(q) - lt0.ut_offset) as i64)),
    ensures
        all_found(z, q, rs),
{
}

// C06: with results ascending by instant, the first and the last entry are the true extremes
proof fn prop_c06_extremes(rs: Seq<FoundDateTimeKind>, j: int)
    requires
        entries_ascending(rs),
        all_kind_inv(rs),
        0 <= j < rs.len(),
    ensures
        entry_earliest(rs[0]).unix_time <= entry_key(rs[j]),
        entry_key(rs[j]) <= entry_key(rs[rs.len() - 1]),
{
}

// C04's "exists a year" for an instant within two days of calendar year y, in terms of the six start/end instants of the
// years y-1, y, y+1 (the window the search looks at); one lemma per reading of the rule (smaller, stable queries)
proof fn lemma_alt_near_sf(a: AlternateTime, u: int, y: int)
    requires
        alt_wf(a),
        near_year(u, y),
        start_first(a),
    ensures
        in_dst(a, u) <==> ((alt_s(a, y - 1) <= u < alt_e(a, y - 1)) || (alt_s(a, y) <= u < alt_e(a, y)) || (alt_s(a, y + 1) <= u < alt_e(a, y + 1))),
{
    hide(alt_s);
    hide(alt_e);
    hide(dby);
    hide(alt_wf);
    lemma_dby_step(y - 2);
    lemma_dby_step(y - 1);
    lemma_dby_step(y);
    lemma_dby_step(y + 1);
    if in_dst(a, u) {
        let yy = choose|yy: int| alt_s(a, yy) <= u < #[trigger] alt_e(a, yy);
        lemma_alt_window(a, yy);
        if yy <= y - 2 {
            lemma_dby_mono(yy, y - 2);
        }
        if yy >= y + 2 {
            lemma_dby_mono(y + 2, yy);
        }
        assert(y - 1 <= yy <= y + 1);
    }
}

proof fn lemma_alt_near_ef(a: AlternateTime, u: int, y: int)
    requires
        alt_wf(a),
        near_year(u, y),
        !start_first(a),
    ensures
        in_dst(a, u) <==> (u < alt_e(a, y - 1) || (alt_s(a, y - 1) <= u < alt_e(a, y)) || (alt_s(a, y) <= u < alt_e(a, y + 1)) || alt_s(a, y + 1) <= u),
{
    hide(alt_s);
    hide(alt_e);
    hide(dby);
    hide(alt_wf);
    lemma_alt_window(a, y - 2);
    lemma_alt_window(a, y + 2);
    lemma_dby_step(y - 3);
    lemma_dby_step(y - 2);
    lemma_dby_step(y - 1);
    lemma_dby_step(y);
    lemma_dby_step(y + 1);
    lemma_dby_step(y + 2);
    if in_dst(a, u) {
        let yy = choose|yy: int| #[trigger] alt_s(a, yy) <= u < alt_e(a, yy + 1);
        lemma_alt_window(a, yy);
        lemma_alt_window(a, yy + 1);
        if yy <= y - 3 {
            lemma_dby_mono(yy + 1, y - 2);
        }
        if yy >= y + 2 {
            lemma_dby_mono(y + 2, yy);
        }
        assert(y - 2 <= yy <= y + 1);
    }
    // the open-ended first and last segments: S(y-2) <= u < E(y+2)
    assert(alt_s(a, y - 2) <= u);
    assert(u < alt_e(a, y + 2));
    if u < alt_e(a, y - 1) {
        assert(alt_s(a, y - 2) <= u < alt_e(a, y - 2 + 1));
    }
    if alt_s(a, y + 1) <= u {
        assert(alt_s(a, y + 1) <= u < alt_e(a, y + 1 + 1));
    }
}

proof fn lemma_alt_near(a: AlternateTime, u: int, y: int)
    requires
        alt_wf(a),
        near_year(u, y),
    ensures
        start_first(a) ==> (in_dst(a, u) <==> ((alt_s(a, y - 1) <= u < alt_e(a, y - 1)) || (alt_s(a, y) <= u < alt_e(a, y)) || (alt_s(a, y + 1) <= u < alt_e(a, y + 1)))),
        !start_first(a) ==> (in_dst(a, u) <==> (u < alt_e(a, y - 1) || (alt_s(a, y - 1) <= u < alt_e(a, y)) || (alt_s(a, y) <= u < alt_e(a, y + 1)) || alt_s(a, y + 1) <= u)),
        !alt_defect_class(a, u) || !(forall|yy: int| alt_e(a, yy) < #[trigger] alt_s(a, yy)),
{
    hide(alt_s);
    hide(alt_e);
    hide(in_dst);
    hide(alt_wf);
    if start_first(a) {
        lemma_alt_near_sf(a, u, y);
    } else {
        lemma_alt_near_ef(a, u, y);
    }
}

// under strict interleaving the walk's instants strictly ascend, and the run-time sortedness test decides start-first / end-first
proof fn lemma_rule_times(a: AlternateTime, y: int)
    requires
        alt_wf(a),
        strict_interleaving(a),
        -2147483646 <= y <= 2147483645,
    ensures
        start_first(a) ==> times_increasing(rule_times(a, y, true)),
        !start_first(a) ==> times_increasing(rule_times(a, y, false)) && alt_e(a, y - 1) < alt_s(a, y - 1),
        start_first(a) <==> (alt_s(a, y - 1) <= alt_e(a, y - 1) && alt_e(a, y - 1) <= alt_s(a, y) && alt_s(a, y) <= alt_e(a, y) && alt_e(a, y) <= alt_s(a, y + 1)
            && alt_s(a, y + 1) <= alt_e(a, y + 1)),
        alt_s(a, y + 1) < i64::MAX,
        alt_e(a, y + 1) < i64::MAX,
{
    hide(alt_s);
    hide(alt_e);
    hide(dby);
    hide(alt_wf);
    lemma_alt_window(a, y + 1);
    lemma_dby_bounds(y + 1);
    if forall|yy: int| alt_s(a, yy) < #[trigger] alt_e(a, yy) && alt_e(a, yy) < alt_s(a, yy + 1) {
        assert(alt_s(a, y - 1) < alt_e(a, y - 1) && alt_e(a, y - 1) < alt_s(a, y - 1 + 1));
        assert(alt_s(a, y) < alt_e(a, y) && alt_e(a, y) < alt_s(a, y + 1));
        assert(alt_s(a, y + 1) < alt_e(a, y + 1));
        assert forall|yy: int| alt_s(a, yy) <= #[trigger] alt_e(a, yy) by {
            assert(alt_s(a, yy) < alt_e(a, yy));
        }
    } else {
        assert(forall|yy: int| alt_e(a, yy) < #[trigger] alt_s(a, yy) && alt_s(a, yy) < alt_e(a, yy + 1));
        assert(alt_e(a, y - 1) < alt_s(a, y - 1) && alt_s(a, y - 1) < alt_e(a, y - 1 + 1));
        assert(alt_e(a, y) < alt_s(a, y) && alt_s(a, y) < alt_e(a, y + 1));
        assert(alt_e(a, y + 1) < alt_s(a, y + 1));
        assert(!start_first(a));
    }
}

// the segment an instant near year y lies in decides whether the rule puts it on daylight time
proof fn lemma_segment(a: AlternateTime, y: int, u: int, k: int)
    requires
        alt_wf(a),
        strict_interleaving(a),
        -2147483646 <= y <= 2147483645,
        near_year(u, y),
        0 <= k <= 6,
        k > 0 ==> rule_times(a, y, start_first(a))[k - 1] <= u,
        u < rule_times(a, y, start_first(a))[k],
    ensures
        in_dst(a, u) == seg_is_dst(start_first(a), k),
        !alt_defect_class(a, u),
{
    hide(alt_s);
    hide(alt_e);
    hide(dby);
    hide(alt_wf);
    hide(in_dst);
    lemma_alt_near(a, u, y);
    lemma_rule_times(a, y);
    if !start_first(a) {
        assert(forall|yy: int| alt_e(a, yy) < #[trigger] alt_s(a, yy)) by {
            if forall|yy: int| alt_s(a, yy) < #[trigger] alt_e(a, yy) && alt_e(a, yy) < alt_s(a, yy + 1) {
                assert forall|yy: int| alt_s(a, yy) <= #[trigger] alt_e(a, yy) by {
                    assert(alt_s(a, yy) < alt_e(a, yy));
                }
            }
        }
    } else {
        assert(!alt_defect_class(a, u));
    }
}

// every instant below the sentinel lies in one segment of a strictly ascending walk
proof fn lemma_find_segment(t: Seq<int>, u: int)
    requires
        times_increasing(t),
        u < t[6],
    ensures
        exists|k: int| 0 <= k <= 6 && (k > 0 ==> t[k - 1] <= u) && u < #[trigger] t[k],
{
    if u < t[0] {
        assert(u < t[0]);
    } else if u < t[1] {
        assert(t[0] <= u && u < t[1]);
    } else if u < t[2] {
        assert(t[1] <= u && u < t[2]);
    } else if u < t[3] {
        assert(t[2] <= u && u < t[3]);
    } else if u < t[4] {
        assert(t[3] <= u && u < t[4]);
    } else if u < t[5] {
        assert(t[4] <= u && u < t[5]);
    } else {
        assert(t[5] <= u && u < t[6]);
    }
}

// an instant at or after the last table transition (or in a zone without table) on which the trailing rule answers lt
proof fn lemma_rule_sound(z: TimeZoneRef, u: int, lt: LocalTimeType)
    requires
        zone_wf_base(z),
        *z.extra_rule is Some,
        rule_answer((*z.extra_rule)->Some_0, u, lt),
        utc_min() <= u <= utc_max(),
        z.transitions@.len() > 0 ==> u >= g_spec(z.leap_seconds@, z.transitions@[z.transitions@.len() - 1].unix_leap_time as int),
    ensures
        lookup_ok(z, u, lt),
{
    lemma_range_consts();
    if z.transitions@.len() == 0 {
        lemma_lookup_cases(z, u, 0);
    } else {
        lemma_f_exists(z.leap_seconds@, u, 0);
        let t = choose|t: int| #[trigger] is_f(z.leap_seconds@, u, t) && u - 2147483648 <= t <= u + 2147483647;
        prop_c12_galois(z.leap_seconds@, u, t, z.transitions@[z.transitions@.len() - 1].unix_leap_time as int);
        lemma_lookup_cases(z, u, t);
    }
}

// a count below the last transition whose table answer shows the searched time: its slot was hit
proof fn lemma_found_in_table(z: TimeZoneRef, q: FindQuery, rs: Seq<FoundDateTimeKind>, u: int, lt: LocalTimeType, t: int)
    requires
        zone_wf_base(z),
        z.transitions@.len() > 0,
        slots_found(z, q, rs, z.transitions@.len() as int),
        is_f(z.leap_seconds@, u, t),
        t < z.transitions@[z.transitions@.len() - 1].unix_leap_time,
        table_type_is(z.transitions@, z.local_time_types@, t, lt),
        u + lt.ut_offset == q_civil(q),
    ensures
        i64::MIN <= u <= i64::MAX && has_normal(rs, q_dt(q, lt, u as i64)),
{
    let tr = z.transitions@;
    if t < tr[0].unix_leap_time {
        assert(u == slot_cand(z, q, 0));
        assert(slot_hit(z, q, 0));
    } else {
        lemma_find_slot(tr, t, 0);
        let i = choose|i: int| #[trigger] in_slot(tr, i, t);
        assert(lt == type_before(z, i + 1));
        assert(u == slot_cand(z, q, i + 1));
        assert(slot_hit(z, q, i + 1));
    }
}

// an instant in the trailing rule's domain whose rule answer shows the searched time: its segment of the walk was hit
proof fn lemma_found_in_rule(z: TimeZoneRef, q: FindQuery, a: AlternateTime, sorted: bool, t: Seq<int>, fv: int, rs: Seq<FoundDateTimeKind>, u: int, lt: LocalTimeType)
    requires
        *z.extra_rule == Some(TransitionRule::Alternate(a)),
        alt_wf(a),
        rule_scope(z, q),
        -2147483646 <= q.year <= 2147483645,
        dby(q.year as int) * 86400 <= q_civil(q) <= dby(q.year as int + 1) * 86400,
        sorted == start_first(a),
        t == rule_times(a, q.year as int, sorted),
        0 <= fv <= 7,
        forall|i: int| 0 <= i < fv ==> t[i] <= rule_from(z),
        segs_found(q, a, sorted, t, rule_from(z), rs, fv, 7),
        alt_answer(a, u, lt),
        rule_from(z) <= u,
        u + lt.ut_offset == q_civil(q),
    ensures
        i64::MIN <= u <= i64::MAX && has_normal(rs, q_dt(q, lt, u as i64)),
{
    hide(alt_wf);
    hide(in_dst);
    hide(alt_defect_class);
    hide(dby);
    let y = q.year as int;
    lemma_rule_times(a, y);
    lemma_dby_bounds(y);
    lemma_dby_bounds(y + 1);
    assert(-90000 < lt.ut_offset < 93600) by { reveal(alt_wf); }
    assert(near_year(u, y));
    assert(u < t[6]);
    lemma_find_segment(t, u);
    let k = choose|k: int| 0 <= k <= 6 && (k > 0 ==> t[k - 1] <= u) && u < #[trigger] t[k];
    lemma_segment(a, y, u, k);
    assert(lt == seg_type(a, sorted, k));
    if k < fv {
        assert(t[k] <= rule_from(z));
    }
    assert(in_seg(t, rule_from(z), k, q_civil(q) - seg_type(a, sorted, k).ut_offset));
}

// C05 completeness for a zone with a (strictly interleaving) DST rule, with or without table
proof fn lemma_all_found_rule(z: TimeZoneRef, q: FindQuery, a: AlternateTime, sorted: bool, t: Seq<int>, fv: int, rs: Seq<FoundDateTimeKind>)
    requires
        zone_wf_base(z),
        *z.extra_rule == Some(TransitionRule::Alternate(a)),
        alt_wf(a),
        rule_scope(z, q),
        -2147483646 <= q.year <= 2147483645,
        dby(q.year as int) * 86400 <= q_civil(q) <= dby(q.year as int + 1) * 86400,
        sorted == start_first(a),
        t == rule_times(a, q.year as int, sorted),
        0 <= fv <= 7,
        forall|i: int| 0 <= i < fv ==> t[i] <= rule_from(z),
        segs_found(q, a, sorted, t, rule_from(z), rs, fv, 7),
        z.transitions@.len() > 0 ==> slots_found(z, q, rs, z.transitions@.len() as int),
    ensures
        all_found(z, q, rs),
{
    hide(alt_wf);
    hide(alt_answer);
    let tr = z.transitions@;
    let n = tr.len() as int;
    assert forall|u: int, lt: LocalTimeType| #[trigger] clock_shows(z, q, u, lt) implies i64::MIN <= u <= i64::MAX && has_normal(rs, q_dt(q, lt, u as i64)) by {
        if n > 0 {
            let tc = choose|tc: int| #[trigger] is_f(z.leap_seconds@, u, tc) && i64::MIN <= tc <= i64::MAX && (
                if tc >= tr[n - 1].unix_leap_time {
                    match *z.extra_rule {
                        Some(rule) => rule_answer(rule, u, lt),
                        None => false,
                    }
                } else {
                    table_type_is(tr, z.local_time_types@, tc, lt)
                });
            if tc >= tr[n - 1].unix_leap_time {
                prop_c12_galois(z.leap_seconds@, u, tc, tr[n - 1].unix_leap_time as int);
                lemma_found_in_rule(z, q, a, sorted, t, fv, rs, u, lt);
            } else {
                lemma_found_in_table(z, q, rs, u, lt, tc);
            }
        } else {
            lemma_found_in_rule(z, q, a, sorted, t, fv, rs, u, lt);
        }
    }
}

proof fn lemma_segs_push(q: FindQuery, a: AlternateTime, sorted: bool, t: Seq<int>, p0: int, rs: Seq<FoundDateTimeKind>, lo: int, hi: int, k: FoundDateTimeKind)
    requires
        segs_found(q, a, sorted, t, p0, rs, lo, hi),
    ensures
        segs_found(q, a, sorted, t, p0, rs.push(k), lo, hi),
{
    assert forall|j: int| lo <= j < hi && #[trigger] in_seg(t, p0, j, q_civil(q) - seg_type(a, sorted, j).ut_offset)
        implies has_normal(rs.push(k), q_dt(q, seg_type(a, sorted, j), (q_civil(q) - seg_type(a, sorted, j).ut_offset) as i64)) by {
        lemma_has_normal_push(rs, q_dt(q, seg_type(a, sorted, j), (q_civil(q) - seg_type(a, sorted, j).ut_offset) as i64), k);
    }
}

proof fn lemma_segs_next(q: FindQuery, a: AlternateTime, sorted: bool, t: Seq<int>, p0: int, rs: Seq<FoundDateTimeKind>, lo: int, k: int)
    requires
        segs_found(q, a, sorted, t, p0, rs, lo, k),
        in_seg(t, p0, k, q_civil(q) - seg_type(a, sorted, k).ut_offset) ==> has_normal(rs, q_dt(q, seg_type(a, sorted, k), (q_civil(q) - seg_type(a, sorted, k).ut_offset) as i64)),
    ensures
        segs_found(q, a, sorted, t, p0, rs, lo, k + 1),
{
}

proof fn lemma_near_year(q: FindQuery, off: int)
    requires
        valid_date(q.year as int, q.month as int, q.month_day as int),
        q.hour < 24,
        q.minute < 60,
        q.second <= 60,
        -93600 <= off <= 93600,
    ensures
        near_year(q_civil(q) - off, q.year as int),
        dby(q.year as int) * 86400 <= q_civil(q) <= dby(q.year as int + 1) * 86400,
{
    lemma_secs_in_year(q.year as int, q.month as int, q.month_day as int, q.hour as int, q.minute as int, q.second as int);
}

proof fn lemma_gaps_sound_rule_weaken(z: TimeZoneRef, q: FindQuery, a: AlternateTime, sorted: bool, t: Seq<int>, rs: Seq<FoundDateTimeKind>)
    requires
        gaps_sound(z, q, rs),
    ensures
        gaps_sound_rule(z, q, a, sorted, t, rs),
{
    assert forall|i: int| 0 <= i < rs.len() && (#[trigger] rs[i]) is Skipped implies
        (exists|j: int| #[trigger] table_gap(z, q, j, rs[i])) || (exists|j: int| #[trigger] walk_gap(q, a, sorted, t, rule_from(z), j, rs[i])) by {
        assert(gap_sound(z, q, rs[i]));
    }
}

proof fn lemma_gaps_sound_rule_push(z: TimeZoneRef, q: FindQuery, a: AlternateTime, sorted: bool, t: Seq<int>, rs: Seq<FoundDateTimeKind>, k: FoundDateTimeKind, j: int)
    requires
        gaps_sound_rule(z, q, a, sorted, t, rs),
        k is Skipped ==> walk_gap(q, a, sorted, t, rule_from(z), j, k),
    ensures
        gaps_sound_rule(z, q, a, sorted, t, rs.push(k)),
{
    assert forall|i: int| 0 <= i < rs.push(k).len() && (#[trigger] rs.push(k)[i]) is Skipped implies
        (exists|jj: int| #[trigger] table_gap(z, q, jj, rs.push(k)[i])) || (exists|jj: int| #[trigger] walk_gap(q, a, sorted, t, rule_from(z), jj, rs.push(k)[i])) by {
        if i < rs.len() {
            assert(rs.push(k)[i] == rs[i]);
        } else {
            assert(walk_gap(q, a, sorted, t, rule_from(z), j, rs.push(k)[i]));
        }
    }
}

proof fn lemma_has_walk_gap_push(q: FindQuery, a: AlternateTime, sorted: bool, t: Seq<int>, p0: int, j: int, rs: Seq<FoundDateTimeKind>, k: FoundDateTimeKind)
    requires
        has_walk_gap(q, a, sorted, t, p0, j, rs) || walk_gap(q, a, sorted, t, p0, j, k),
    ensures
        has_walk_gap(q, a, sorted, t, p0, j, rs.push(k)),
{
    if has_walk_gap(q, a, sorted, t, p0, j, rs) {
        let i = choose|i: int| 0 <= i < rs.len() && #[trigger] walk_gap(q, a, sorted, t, p0, j, rs[i]);
        assert(walk_gap(q, a, sorted, t, p0, j, rs.push(k)[i]));
    } else {
        assert(walk_gap(q, a, sorted, t, p0, j, rs.push(k)[rs.len() as int]));
    }
}

proof fn lemma_walk_gaps_push(q: FindQuery, a: AlternateTime, sorted: bool, t: Seq<int>, p0: int, rs: Seq<FoundDateTimeKind>, hi: int, k: FoundDateTimeKind)
    requires
        walk_gaps_found(q, a, sorted, t, p0, rs, hi),
    ensures
        walk_gaps_found(q, a, sorted, t, p0, rs.push(k), hi),
{
    assert forall|j: int| 0 <= j < hi && #[trigger] walk_gap_cond(q, a, sorted, t, p0, j) implies has_walk_gap(q, a, sorted, t, p0, j, rs.push(k)) by {
        lemma_has_walk_gap_push(q, a, sorted, t, p0, j, rs, k);
    }
}

// a start/end instant within two days of calendar year y belongs to one of the years y-1..y+1
proof fn lemma_instant_year_window(a: AlternateTime, y: int, yy: int, t: int)
    requires
        alt_wf(a),
        t == alt_s(a, yy) || t == alt_e(a, yy),
        (dby(y) - 2) * 86400 <= t <= (dby(y + 1) + 2) * 86400,
    ensures
        y - 1 <= yy <= y + 1,
{
    hide(alt_s);
    hide(alt_e);
    hide(dby);
    hide(alt_wf);
    lemma_alt_window(a, yy);
    lemma_dby_step(y - 2);
    lemma_dby_step(y - 1);
    lemma_dby_step(y);
    lemma_dby_step(y + 1);
    if yy <= y - 2 {
        lemma_dby_mono(yy, y - 2);
    }
    if yy >= y + 2 {
        lemma_dby_mono(y + 2, yy);
    }
}

// C06 completeness over every year of the rule: a start/end instant whose gap contains the searched time belongs to the years
// y-1..y+1, i.e. it is one of the instants the walk looks at, so the gap is among the reported ones
proof fn prop_c06_rule_gaps_complete(q: FindQuery, a: AlternateTime, p0: int, rs: Seq<FoundDateTimeKind>, yy: int, is_start: bool)
    requires
        alt_wf(a),
        strict_interleaving(a),
        -2147483646 <= q.year <= 2147483645,
        dby(q.year as int) * 86400 <= q_civil(q) <= dby(q.year as int + 1) * 86400,
        walk_gaps_found(q, a, start_first(a), rule_times(a, q.year as int, start_first(a)), p0, rs, 6),
        rule_gap_cond(q, a, p0, yy, is_start),
    ensures
        q.year - 1 <= yy <= q.year + 1,
        has_walk_gap(q, a, start_first(a), rule_times(a, q.year as int, start_first(a)), p0, walk_index(start_first(a), q.year as int, yy, is_start), rs),
{
    hide(alt_s);
    hide(alt_e);
    hide(dby);
    hide(alt_wf);
    hide(strict_interleaving);
    let y = q.year as int;
    let sorted = start_first(a);
    let t = rule_times(a, y, sorted);
    let ti = if is_start { alt_s(a, yy) } else { alt_e(a, yy) };
    assert(-90000 < a.std.ut_offset < 93600 && -90000 < a.dst.ut_offset < 93600) by { reveal(alt_wf); }
    lemma_instant_year_window(a, y, yy, ti);
    let j = walk_index(sorted, y, yy, is_start);
    assert(0 <= j <= 5);
    assert(t[j] == ti);
    assert(seg_type(a, sorted, j) == (if is_start { a.std } else { a.dst }));
    assert(seg_type(a, sorted, j + 1) == (if is_start { a.dst } else { a.std }));
    assert(walk_gap_cond(q, a, sorted, t, p0, j));
}

// C05, last sentence ("a local time that occurs once is reported as unique"), over the proved clauses: if exactly one instant shows the
// searched time and it lies in no gap, the result list is that single valid result (so unique() is Some, by unique()'s contract)
proof fn prop_c05_occurs_once(z: TimeZoneRef, q: FindQuery, rs: Seq<FoundDateTimeKind>, u: int, lt: LocalTimeType)
    requires
        normals_sound(z, q, rs),
        normals_increasing(rs),
        all_found(z, q, rs),
        gaps_sound(z, q, rs),
        clock_shows(z, q, u, lt),
        forall|u2: int, lt2: LocalTimeType| #[trigger] clock_shows(z, q, u2, lt2) ==> u2 == u,
        forall|i: int| !#[trigger] gap_cond(z, q, i),
    ensures
        rs.len() == 1,
        rs[0] == FoundDateTimeKind::Normal(q_dt(q, lt, u as i64)),
{
    let dt = q_dt(q, lt, u as i64);
    assert(has_normal(rs, dt));
    let j = choose|j: int| 0 <= j < rs.len() && #[trigger] rs[j] == FoundDateTimeKind::Normal(dt);
    assert forall|i: int| 0 <= i < rs.len() implies #[trigger] same_index(i, j) by {
        if i != j {
            match rs[i] {
                FoundDateTimeKind::Normal(d) => {
                    assert(normal_sound(z, q, rs[i]));
                    assert(clock_shows(z, q, d.unix_time as int, d.local_time_type));
                    assert(entry_key(rs[i]) == entry_key(rs[j]));
                    if i < j {
                        assert(entry_key(rs[i]) < entry_key(rs[j]));
                    } else {
                        assert(entry_key(rs[j]) < entry_key(rs[i]));
                    }
                },
                FoundDateTimeKind::Skipped { before_transition, after_transition } => {
                    assert(gap_sound(z, q, rs[i]));
                    let k = choose|k: int| #[trigger] table_gap(z, q, k, rs[i]);
                    assert(gap_cond(z, q, k));
                },
            }
        }
    }
    if rs.len() != 1 {
        assert(rs.len() >= 2);
        let other = if j == 0 { 1int } else { 0int };
        assert(same_index(other, j));
    }
}
