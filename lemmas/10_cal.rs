// Lemmas about S-CAL (pure mathematics; no code from /repo)

proof fn lemma_div_step(y: int, d: int)
    requires
        d == 4 || d == 100 || d == 400,
    ensures
        y / d == (y - 1) / d + if y % d == 0 { 1int } else { 0 },
{
    if d == 4 {
        assert(y / 4 == (y - 1) / 4 + if y % 4 == 0 { 1int } else { 0 });
    } else if d == 100 {
        assert(y / 100 == (y - 1) / 100 + if y % 100 == 0 { 1int } else { 0 });
    } else {
        assert(y / 400 == (y - 1) / 400 + if y % 400 == 0 { 1int } else { 0 });
    }
}

proof fn lemma_mod_chain(y: int)
    ensures
        y % 400 == 0 ==> y % 100 == 0,
        y % 100 == 0 ==> y % 4 == 0,
{
}

proof fn lemma_dby_step(y: int)
    ensures
        dby(1970) == 0,
        dby(y + 1) - dby(y) == ylen(y),
{
    lemma_div_step(y, 4);
    lemma_div_step(y, 100);
    lemma_div_step(y, 400);
    lemma_mod_chain(y);
    let a = (y - 1) / 4;
    let b = (y - 1) / 100;
    let c = (y - 1) / 400;
    let i4: int = if y % 4 == 0 { 1 } else { 0 };
    let i100: int = if y % 100 == 0 { 1 } else { 0 };
    let i400: int = if y % 400 == 0 { 1 } else { 0 };
    assert(dby(y + 1) == 365 * (y + 1 - 1970) + (a + i4) - (b + i100) + (c + i400) - 477);
    assert(dby(y) == 365 * (y - 1970) + a - b + c - 477);
    assert(ylen(y) == 365 + i4 - i100 + i400);
}

proof fn lemma_cum(m: int, lp: bool)
    requires
        1 <= m <= 12,
    ensures
        cum(1, lp) == 0,
        cum(m + 1, lp) == cum(m, lp) + dim(m, lp),
        cum(13, lp) == if lp { 366int } else { 365 },
{
}

proof fn lemma_dby_mono(y1: int, y2: int)
    requires
        y1 <= y2,
    ensures
        dby(y1) + 365 * (y2 - y1) <= dby(y2),
    decreases y2 - y1,
{
    if y1 < y2 {
        lemma_dby_mono(y1, y2 - 1);
        lemma_dby_step(y2 - 1);
    }
}

proof fn lemma_range_consts()
    ensures
        utc_min() == -67768100567971200,
        utc_max() == 67767976233532799,
{
}

// Euclidean division is determined by q * d + r with 0 <= r < d (one divisor per call keeps the solver's work small)
proof fn lemma_div_unique(x: int, d: int, q: int, r: int)
    requires
        d == 4 || d == 100 || d == 400,
        x == q * d + r,
        0 <= r < d,
    ensures
        x / d == q,
        x % d == r,
{
    if d == 4 {
        assert(x / 4 == q && x % 4 == r);
    } else if d == 100 {
        assert(x / 100 == q && x % 100 == r);
    } else {
        assert(x / 400 == q && x % 400 == r);
    }
}

// Year arithmetic of the 400/100/4/1 cycle decomposition, counted from 2000-03-01 (day 11017)
proof fn lemma_cycles(a: int, b: int, c: int, e: int)
    requires
        0 <= b <= 3,
        0 <= c <= 24,
        0 <= e <= 3,
    ensures
        ({
            let y = 2000 + 400 * a + 100 * b + 4 * c + e;
            &&& dby(y) + cum(3, leap(y)) == 11017 + 146097 * a + 36524 * b + 1461 * c + 365 * e
            &&& leap(y + 1) == (e == 3 && (c != 24 || b == 3))
        }),
{
    let y = 2000 + 400 * a + 100 * b + 4 * c + e;
    lemma_div_unique(y, 4, 500 + 100 * a + 25 * b + c, e);
    lemma_div_unique(y, 100, 20 + 4 * a + b, 4 * c + e);
    lemma_div_unique(y, 400, 5 + a, 100 * b + 4 * c + e);
    lemma_div_step(y, 4);
    lemma_div_step(y, 100);
    lemma_div_step(y, 400);
    // the year after: y + 1 = 4 q4 + (e + 1) etc.
    if e < 3 {
        lemma_div_unique(y + 1, 4, 500 + 100 * a + 25 * b + c, e + 1);
    } else {
        lemma_div_unique(y + 1, 4, 500 + 100 * a + 25 * b + c + 1, 0);
    }
    if 4 * c + e < 99 {
        lemma_div_unique(y + 1, 100, 20 + 4 * a + b, 4 * c + e + 1);
    } else {
        lemma_div_unique(y + 1, 100, 20 + 4 * a + b + 1, 0);
    }
    if 100 * b + 4 * c + e < 399 {
        lemma_div_unique(y + 1, 400, 5 + a, 100 * b + 4 * c + e + 1);
    } else {
        lemma_div_unique(y + 1, 400, 5 + a + 1, 0);
    }
    assert(dby(y) == 365 * (y - 1970) + (y - 1) / 4 - (y - 1) / 100 + (y - 1) / 400 - 477);
    assert(cum(3, leap(y)) == 59 + if leap(y) { 1int } else { 0 });
}

// March-based (year, month index k, day offset) -> civil date
proof fn lemma_month(y: int, k: int, off: int)
    requires
        0 <= k <= 11,
    ensures
        k <= 9 ==> days_civil(y, k + 3, off + 1) == dby(y) + cum(3, leap(y)) + mpre(k) + off,
        k >= 10 ==> days_civil(y + 1, k - 9, off + 1) == dby(y) + cum(3, leap(y)) + mpre(k) + off,
        k <= 9 ==> dim(k + 3, leap(y)) == mpre(k + 1) - mpre(k),
        k == 10 ==> dim(1, leap(y + 1)) == 31,
        k == 11 ==> dim(2, leap(y + 1)) == if leap(y + 1) { 29int } else { 28 },
{
    lemma_dby_step(y);
}

// a second count inside a civil day of year y lies between the two year boundaries
proof fn lemma_secs_in_year(y: int, m: int, d: int, h: int, mi: int, s: int)
    requires
        valid_date(y, m, d),
        0 <= h < 24,
        0 <= mi < 60,
        0 <= s <= 60,
    ensures
        dby(y) * 86400 <= secs(y, m, d, h, mi, s),
        s < 60 ==> secs(y, m, d, h, mi, s) < dby(y + 1) * 86400,
        secs(y, m, d, h, mi, s) <= dby(y + 1) * 86400,
        s == 60 && secs(y, m, d, h, mi, s) == dby(y + 1) * 86400 ==> m == 12 && d == 31 && h == 23 && mi == 59,
{
    lemma_dby_step(y);
    lemma_cum(m, leap(y));
}

proof fn lemma_dby_bounds(y: int)
    requires
        -2147483648 <= y <= 2147483648,
    ensures
        -784353015833 <= dby(y) <= 784351576777,
{
}

// the two truncating-division formulas of days_since_unix_epoch against the floor closed form
// (one divisor per lemma: each is a small linear problem for the solver)
proof fn lemma_dsue_ge(y: int, d: int)
    requires
        y >= 1970,
        d == 4 || d == 100 || d == 400,
    ensures
        d == 4 ==> tdiv(y - 1968, 4) == (y - 1) / 4 - 492 + (if y % 4 == 0 { 1int } else { 0 }),
        d == 100 ==> tdiv(y - 1900, 100) == (y - 1) / 100 - 19 + (if y % 100 == 0 { 1int } else { 0 }),
        d == 400 ==> tdiv(y - 1600, 400) == (y - 1) / 400 - 4 + (if y % 400 == 0 { 1int } else { 0 }),
{
    lemma_div_step(y, d);
    if d == 4 {
        assert((y - 1968) / 4 == y / 4 - 492);
    } else if d == 100 {
        assert((y - 1900) / 100 == y / 100 - 19);
    } else {
        assert((y - 1600) / 400 == y / 400 - 4);
    }
}

proof fn lemma_dsue_lt(y: int, d: int)
    requires
        y < 1970,
        d == 4 || d == 100 || d == 400,
    ensures
        d == 4 ==> tdiv(y - 1972, 4) == (y - 1) / 4 - 492,
        d == 100 ==> tdiv(y - 2000, 100) == (y - 1) / 100 - 19,
        d == 400 ==> tdiv(y - 2000, 400) == (y - 1) / 400 - 4,
{
    if d == 4 {
        assert(-((1972 - y) / 4) == (y - 1) / 4 - 492);
    } else if d == 100 {
        assert(-((2000 - y) / 100) == (y - 1) / 100 - 19);
    } else {
        assert(-((2000 - y) / 400) == (y - 1) / 400 - 4);
    }
}

proof fn lemma_dsue(y: int)
    ensures
        y >= 1970 ==> tdiv(y - 1968, 4) == (y - 1) / 4 - 492 + (if y % 4 == 0 { 1int } else { 0 })
            && tdiv(y - 1900, 100) == (y - 1) / 100 - 19 + (if y % 100 == 0 { 1int } else { 0 })
            && tdiv(y - 1600, 400) == (y - 1) / 400 - 4 + (if y % 400 == 0 { 1int } else { 0 }),
        y < 1970 ==> tdiv(y - 1972, 4) == (y - 1) / 4 - 492
            && tdiv(y - 2000, 100) == (y - 1) / 100 - 19
            && tdiv(y - 2000, 400) == (y - 1) / 400 - 4,
        y % 400 == 0 ==> y % 100 == 0,
        y % 100 == 0 ==> y % 4 == 0,
{
    lemma_mod_chain(y);
    if y >= 1970 {
        lemma_dsue_ge(y, 4);
        lemma_dsue_ge(y, 100);
        lemma_dsue_ge(y, 400);
    } else {
        lemma_dsue_lt(y, 4);
        lemma_dsue_lt(y, 100);
        lemma_dsue_lt(y, 400);
    }
}

// the 100/4/1-year cascade with its clamps, on the day number inside a 400-year cycle
proof fn lemma_cascade(rd0: int)
    requires
        0 <= rd0 < 146097,
    ensures
        ({
            let b = imin(rd0 / 36524, 3);
            let rd1 = rd0 - b * 36524;
            let c = imin(rd1 / 1461, 24);
            let rd2 = rd1 - c * 1461;
            let e = imin(rd2 / 365, 3);
            let rd3 = rd2 - e * 365;
            &&& 0 <= b <= 3
            &&& 0 <= c <= 24
            &&& 0 <= e <= 3
            &&& 0 <= rd1
            &&& 0 <= rd2
            &&& 0 <= rd3 < 365 + (if e == 3 && (c != 24 || b == 3) { 1int } else { 0 })
        }),
{
}

proof fn lemma_hms(sod: int)
    requires
        0 <= sod < 86400,
    ensures
        0 <= sod / 3600 < 24,
        0 <= (sod / 60) % 60 < 60,
        0 <= sod % 60 < 60,
        (sod / 3600) * 3600 + ((sod / 60) % 60) * 60 + sod % 60 == sod,
{
}

// last step of the Unix-time -> calendar direction: fields of the day + second-of-day give back the
// instant, and the year fits an i32 exactly when the instant is in the supported range
proof fn lemma_from_timespec_final(y: int, m: int, d: int, sod: int, dn: int, t: int)
    requires
        valid_date(y, m, d),
        days_civil(y, m, d) == dn,
        0 <= sod < 86400,
        t == dn * 86400 + sod,
    ensures
        0 <= sod / 3600 < 24,
        0 <= (sod / 60) % 60 < 60,
        0 <= sod % 60 < 60,
        secs(y, m, d, sod / 3600, (sod / 60) % 60, sod % 60) == t,
        (-2147483648 <= y <= 2147483647) <==> (utc_min() <= t <= utc_max()),
        dby(y) * 86400 <= t < dby(y + 1) * 86400,
{
    lemma_hms(sod);
    let h = sod / 3600;
    let mi = (sod / 60) % 60;
    let s = sod % 60;
    assert(secs(y, m, d, h, mi, s) == dn * 86400 + (h * 3600 + mi * 60 + s));
    lemma_secs_in_year(y, m, d, h, mi, s);
    if y > 2147483647 {
        lemma_dby_mono(2147483648, y);
    }
    if y < -2147483648 {
        lemma_dby_mono(y + 1, -2147483648);
    }
    if -2147483648 <= y <= 2147483647 {
        lemma_dby_mono(-2147483648, y);
        lemma_dby_mono(y + 1, 2147483648);
    }
}

// divisibility does not depend on the rounding convention of the remainder (one divisor per call)
proof fn lemma_rem_zero(x: int, d: int)
    requires
        d == 4 || d == 100 || d == 400,
    ensures
        (trem(x, d) == 0) == (x % d == 0),
{
    if d == 4 {
        assert((trem(x, 4) == 0) == (x % 4 == 0));
    } else if d == 100 {
        assert((trem(x, 100) == 0) == (x % 100 == 0));
    } else {
        assert((trem(x, 400) == 0) == (x % 400 == 0));
    }
}
