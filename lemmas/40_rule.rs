// Lemmas about POSIX rule days and DST periods (pure mathematics over S-CAL / S-RULE)

proof fn lemma_weekday_shift(n: int, k: int)
    ensures
        weekday(n + 7 * k) == weekday(n),
        weekday(n + 1) == (weekday(n) + 1) % 7,
{
}

// the first occurrence of weekday wd counted from a day with weekday a: offset (wd - a) mod 7
proof fn lemma_first_occurrence(n: int, wd: int)
    requires
        0 <= wd <= 6,
    ensures
        ({
            let b = (wd - weekday(n)) % 7;
            &&& 0 <= b <= 6
            &&& weekday(n + b) == wd
        }),
{
}

// existence: the w-th (or last) weekday wd of month m
proof fn lemma_mwd_exists(y: int, m: int, w: int, wd: int)
    requires
        1 <= m <= 12,
        1 <= w <= 5,
        0 <= wd <= 6,
    ensures
        is_mwd_day(y, m, w, wd, mwd_day(y, m, w, wd)),
{
    let n1 = days_civil(y, m, 1);
    lemma_first_occurrence(n1, wd);
    let first = 1 + (wd - weekday(n1)) % 7;
    let d0 = first + 7 * (w - 1);
    let len = dim(m, leap(y));
    let d = if d0 > len { d0 - 7 } else { d0 };
    assert(days_civil(y, m, d) == n1 + (first - 1) + 7 * (if d0 > len { w - 2 } else { w - 1 }));
    lemma_weekday_shift(n1 + (first - 1), if d0 > len { w - 2 } else { w - 1 });
    assert(is_mwd_day(y, m, w, wd, d));
}

proof fn lemma_mod7_same(a: int, k: int)
    requires
        a % 7 == (a + k) % 7,
        -7 < k < 7,
    ensures
        k == 0,
{
}

// uniqueness: two days of the same month in the same 7-day window with the same weekday are equal
proof fn lemma_mwd_unique(y: int, m: int, w: int, wd: int, d1: int, d2: int)
    requires
        is_mwd_day(y, m, w, wd, d1),
        is_mwd_day(y, m, w, wd, d2),
    ensures
        d1 == d2,
{
    hide(dby);
    hide(cum);
    let n1 = days_civil(y, m, d1);
    assert(days_civil(y, m, d2) == n1 + (d2 - d1));
    assert(-7 < d2 - d1 < 7);
    assert((4 + n1) % 7 == (4 + n1 + (d2 - d1)) % 7);
    lemma_mod7_same(4 + n1, d2 - d1);
}

proof fn lemma_mwd_is(y: int, m: int, w: int, wd: int, d: int)
    requires
        1 <= m <= 12,
        1 <= w <= 5,
        0 <= wd <= 6,
        is_mwd_day(y, m, w, wd, d),
    ensures
        d == mwd_day(y, m, w, wd),
{
    lemma_mwd_exists(y, m, w, wd);
    lemma_mwd_unique(y, m, w, wd, d, mwd_day(y, m, w, wd));
}

// the rule day lies inside its year (day 365 of a common year is January 1 of the next)
proof fn lemma_daynum_window(d: RuleDay, y: int)
    requires
        rd_wf(d),
    ensures
        dby(y) <= rule_daynum(d, y) <= dby(y) + 365,
{
    match d {
        RuleDay::MonthWeekDay(m) => {
            lemma_mwd_exists(y, m.month as int, m.week as int, m.week_day as int);
            lemma_cum(m.month as int, leap(y));
            if m.month < 12 {
                lemma_cum_mono(m.month as int, 12, leap(y));
            }
            lemma_cum(12, leap(y));
        },
        _ => {},
    }
}

// from one year to the next the rule day moves forward by about a year
proof fn lemma_daynum_step(d: RuleDay, y: int)
    requires
        rd_wf(d),
    ensures
        358 <= rule_daynum(d, y + 1) - rule_daynum(d, y) <= 373,
{
    lemma_dby_step(y);
    match d {
        RuleDay::MonthWeekDay(m) => {
            lemma_mwd_exists(y, m.month as int, m.week as int, m.week_day as int);
            lemma_mwd_exists(y + 1, m.month as int, m.week as int, m.week_day as int);
            let d1 = mwd_day(y, m.month as int, m.week as int, m.week_day as int);
            let d2 = mwd_day(y + 1, m.month as int, m.week as int, m.week_day as int);
            assert(-7 <= d2 - d1 <= 7);
            assert(days_civil(y + 1, m.month as int, d2) - days_civil(y, m.month as int, d1)
                == ylen(y) + (cum(m.month as int, leap(y + 1)) - cum(m.month as int, leap(y))) + (d2 - d1));
        },
        _ => {},
    }
}

proof fn lemma_alt_window(a: AlternateTime, y: int)
    requires
        alt_wf(a),
    ensures
        (dby(y) - 9) * 86400 < alt_s(a, y) < (dby(y) + 374) * 86400,
        (dby(y) - 9) * 86400 < alt_e(a, y) < (dby(y) + 374) * 86400,
        358 * 86400 <= alt_s(a, y + 1) - alt_s(a, y),
        358 * 86400 <= alt_e(a, y + 1) - alt_e(a, y),
{
    lemma_daynum_window(a.dst_start, y);
    lemma_daynum_window(a.dst_end, y);
    lemma_daynum_step(a.dst_start, y);
    lemma_daynum_step(a.dst_end, y);
}

// C04 core: the "exists a year" of the property reduces to the years next to the one containing u
proof fn lemma_alt_three_years(a: AlternateTime, u: int, c: int)
    requires
        alt_wf(a),
        year_is(u, c),
    ensures
        start_first(a) ==> (in_dst(a, u) <==> ((alt_s(a, c - 1) <= u < alt_e(a, c - 1)) || (alt_s(a, c) <= u < alt_e(a, c)) || (alt_s(a, c + 1) <= u < alt_e(a, c + 1)))),
        !start_first(a) ==> (in_dst(a, u) <==> ((alt_s(a, c - 2) <= u < alt_e(a, c - 1)) || (alt_s(a, c - 1) <= u < alt_e(a, c)) || (alt_s(a, c) <= u < alt_e(a, c + 1)) || (alt_s(a, c + 1) <= u < alt_e(a, c + 2)))),
        alt_s(a, c - 2) <= u < alt_e(a, c + 2),
        alt_s(a, c - 1) < alt_s(a, c) < alt_s(a, c + 1),
        alt_e(a, c - 1) < alt_e(a, c) < alt_e(a, c + 1),
        alt_e(a, c - 2) < alt_e(a, c - 1),
        start_first(a) ==> alt_s(a, c - 1) <= alt_e(a, c - 1) && alt_s(a, c) <= alt_e(a, c) && alt_s(a, c + 1) <= alt_e(a, c + 1),
        !start_first(a) ==> alt_e(a, c - 1) <= alt_s(a, c - 1) && alt_e(a, c) <= alt_s(a, c) && alt_e(a, c + 1) <= alt_s(a, c + 1),
        alt_s(a, c) < alt_e(a, c) ==> start_first(a),
        alt_s(a, c) > alt_e(a, c) ==> !start_first(a),
{
    hide(alt_s);
    hide(alt_e);
    hide(dby);
    hide(alt_wf);
    assert(order_stable(a)) by {
        reveal(alt_wf);
    }
    lemma_alt_window(a, c - 2);
    lemma_alt_window(a, c - 1);
    lemma_alt_window(a, c);
    lemma_alt_window(a, c + 1);
    lemma_alt_window(a, c + 2);
    lemma_dby_step(c - 2);
    lemma_dby_step(c - 1);
    lemma_dby_step(c);
    lemma_dby_step(c + 1);
    if start_first(a) {
        assert(alt_s(a, c - 1) <= alt_e(a, c - 1) && alt_s(a, c) <= alt_e(a, c) && alt_s(a, c + 1) <= alt_e(a, c + 1));
        if in_dst(a, u) {
            let y = choose|y: int| alt_s(a, y) <= u < #[trigger] alt_e(a, y);
            lemma_alt_window(a, y);
            if y <= c - 2 {
                lemma_dby_mono(y, c - 2);
            }
            if y >= c + 2 {
                lemma_dby_mono(c + 2, y);
            }
            assert(c - 1 <= y <= c + 1);
        }
    } else {
        assert(end_first(a));
        assert(alt_e(a, c - 1) <= alt_s(a, c - 1) && alt_e(a, c) <= alt_s(a, c) && alt_e(a, c + 1) <= alt_s(a, c + 1));
        if in_dst(a, u) {
            let y = choose|y: int| #[trigger] alt_s(a, y) <= u < alt_e(a, y + 1);
            lemma_alt_window(a, y);
            lemma_alt_window(a, y + 1);
            if y <= c - 3 {
                lemma_dby_mono(y + 1, c - 2);
            }
            if y >= c + 2 {
                lemma_dby_mono(c + 2, y);
            }
            assert(c - 2 <= y <= c + 1);
        }
    }
    if alt_s(a, c) < alt_e(a, c) && !start_first(a) {
        assert(end_first(a));
        assert(false);
    }
}

proof fn lemma_alt_u_ok(u: int, c: int)
    requires
        year_is(u, c),
    ensures
        alt_u_ok(u) <==> -2147483646 <= c <= 2147483645,
{
    if c < -2147483646 {
        lemma_dby_mono(c + 1, -2147483646);
    }
    if c >= -2147483646 {
        lemma_dby_mono(-2147483646, c);
    }
    if c > 2147483645 {
        lemma_dby_mono(2147483646, c);
    }
    if c <= 2147483645 {
        lemma_dby_mono(c + 1, 2147483646);
    }
}

// C04 corollary: the answer cannot change at a calendar-year boundary unless a start/end instant is there:
// in_dst is defined purely by the start/end instants, and between two consecutive instants of the merged
// sequence it is constant.  Stated for two instants with no start or end instant in (u1, u2].
proof fn prop_c04_no_year_boundary(a: AlternateTime, u1: int, u2: int)
    requires
        u1 <= u2,
        forall|y: int| !(u1 < #[trigger] alt_s(a, y) <= u2),
        forall|y: int| !(u1 < #[trigger] alt_e(a, y) <= u2),
    ensures
        in_dst(a, u1) == in_dst(a, u2),
{
    if start_first(a) {
        if in_dst(a, u1) {
            let y = choose|y: int| alt_s(a, y) <= u1 < #[trigger] alt_e(a, y);
            assert(!(u1 < alt_e(a, y) <= u2));
            assert(alt_s(a, y) <= u2 < alt_e(a, y));
        }
        if in_dst(a, u2) {
            let y = choose|y: int| alt_s(a, y) <= u2 < #[trigger] alt_e(a, y);
            assert(!(u1 < alt_s(a, y) <= u2));
            assert(alt_s(a, y) <= u1 < alt_e(a, y));
        }
    } else {
        if in_dst(a, u1) {
            let y = choose|y: int| #[trigger] alt_s(a, y) <= u1 < alt_e(a, y + 1);
            assert(!(u1 < alt_e(a, y + 1) <= u2));
            assert(alt_s(a, y) <= u2 < alt_e(a, y + 1));
        }
        if in_dst(a, u2) {
            let y = choose|y: int| #[trigger] alt_s(a, y) <= u2 < alt_e(a, y + 1);
            assert(!(u1 < alt_s(a, y) <= u2));
            assert(alt_s(a, y) <= u1 < alt_e(a, y + 1));
        }
    }
}

// ---- C11 ------------------------------------------------------------------------------------------

// two consecutive years are never both leap years; each of the three remaining patterns occurs
proof fn lemma_year_patterns(y: int)
    ensures
        !(leap(y) && leap(y + 1)),
        !leap(2001) && !leap(2002),
        !leap(2003) && leap(2004),
        leap(2004) && !leap(2005),
{
}

proof fn lemma_jinfo_j1(n: int, t: int, i: JulianDayCheckInfos)
    requires
        1 <= n <= 365,
        i.start_normal_year_offset == (n - 1) * 86400 + t,
        i.start_leap_year_offset == i.start_normal_year_offset + (if n > 59 { 86400int } else { 0 }),
    ensures
        forall|y: int| #[trigger] rd_instant(RuleDay::Julian1WithoutLeap(Julian1WithoutLeap(n as u16)), t, y) == dby(y) * 86400 + (if leap(y) { i.start_leap_year_offset as int } else { i.start_normal_year_offset as int }),
{
}

proof fn lemma_jinfo_j0(n: int, t: int, i: JulianDayCheckInfos)
    requires
        0 <= n <= 365,
        i.start_normal_year_offset == n * 86400 + t,
        i.start_leap_year_offset == i.start_normal_year_offset,
    ensures
        forall|y: int| #[trigger] rd_instant(RuleDay::Julian0WithLeap(Julian0WithLeap(n as u16)), t, y) == dby(y) * 86400 + (if leap(y) { i.start_leap_year_offset as int } else { i.start_normal_year_offset as int }),
{
}

// for two Julian-notation days the three "for all years" relations reduce to the year classes
proof fn lemma_jj_stable(d1: RuleDay, t1: int, i1: JulianDayCheckInfos, d2: RuleDay, t2: int, i2: JulianDayCheckInfos)
    requires
        jinfo_of(i1, d1, t1),
        jinfo_of(i2, d2, t2),
    ensures
        pair_stable(d1, t1, d2, t2) == jj_stable(i1, i2),
{
    hide(rule_daynum);
    lemma_jj_rel_same(d1, t1, i1, d2, t2, i2);
    lemma_jj_rel_same(d2, t2, i2, d1, t1, i1);
    lemma_jj_rel_next(d2, t2, i2, d1, t1, i1);
    lemma_jj_rel_next(d1, t1, i1, d2, t2, i2);
}

proof fn lemma_jj_rel_same(d1: RuleDay, t1: int, i1: JulianDayCheckInfos, d2: RuleDay, t2: int, i2: JulianDayCheckInfos)
    requires
        jinfo_of(i1, d1, t1),
        jinfo_of(i2, d2, t2),
    ensures
        (forall|y: int| rd_instant(d1, t1, y) <= #[trigger] rd_instant(d2, t2, y)) == jj_le_same(i1, i2),
{
    hide(rule_daynum);
    hide(dby);
    lemma_year_patterns(0);
    if jj_le_same(i1, i2) {
        assert forall|y: int| rd_instant(d1, t1, y) <= #[trigger] rd_instant(d2, t2, y) by {
            assert(rd_instant(d1, t1, y) == dby(y) * 86400 + (if leap(y) { i1.start_leap_year_offset as int } else { i1.start_normal_year_offset as int }));
        }
    }
    if forall|y: int| rd_instant(d1, t1, y) <= #[trigger] rd_instant(d2, t2, y) {
        assert(rd_instant(d1, t1, 2001) <= rd_instant(d2, t2, 2001));
        assert(rd_instant(d1, t1, 2004) <= rd_instant(d2, t2, 2004));
    }
}

// a(y) vs b(y + 1)
proof fn lemma_jj_rel_next(da: RuleDay, ta: int, ia: JulianDayCheckInfos, db: RuleDay, tb: int, ib: JulianDayCheckInfos)
    requires
        jinfo_of(ia, da, ta),
        jinfo_of(ib, db, tb),
    ensures
        (forall|y: int| #[trigger] rd_instant(da, ta, y) <= rd_instant(db, tb, y + 1)) == jj_le_next(ia, ib),
        (forall|y: int| rd_instant(db, tb, y + 1) <= #[trigger] rd_instant(da, ta, y)) == jj_ge_next(ia, ib),
{
    hide(rule_daynum);
    hide(dby);
    lemma_year_patterns(0);
    assert forall|y: int| #[trigger] dby(y + 1) == dby(y) + (if leap(y) { 366int } else { 365 }) by {
        lemma_dby_step(y);
    }
    if jj_le_next(ia, ib) {
        assert forall|y: int| #[trigger] rd_instant(da, ta, y) <= rd_instant(db, tb, y + 1) by {
            lemma_year_patterns(y);
            assert(rd_instant(db, tb, y + 1) == dby(y + 1) * 86400 + (if leap(y + 1) { ib.start_leap_year_offset as int } else { ib.start_normal_year_offset as int }));
        }
    }
    if jj_ge_next(ia, ib) {
        assert forall|y: int| rd_instant(db, tb, y + 1) <= #[trigger] rd_instant(da, ta, y) by {
            lemma_year_patterns(y);
            assert(rd_instant(db, tb, y + 1) == dby(y + 1) * 86400 + (if leap(y + 1) { ib.start_leap_year_offset as int } else { ib.start_normal_year_offset as int }));
        }
    }
    if forall|y: int| #[trigger] rd_instant(da, ta, y) <= rd_instant(db, tb, y + 1) {
        assert(rd_instant(da, ta, 2001) <= rd_instant(db, tb, 2001int + 1));
        assert(rd_instant(da, ta, 2003) <= rd_instant(db, tb, 2003int + 1));
        assert(rd_instant(da, ta, 2004) <= rd_instant(db, tb, 2004int + 1));
        assert(rd_instant(db, tb, 2002) == dby(2002) * 86400 + ib.start_normal_year_offset);
        assert(rd_instant(db, tb, 2004) == dby(2004) * 86400 + ib.start_leap_year_offset);
        assert(rd_instant(db, tb, 2005) == dby(2005) * 86400 + ib.start_normal_year_offset);
    }
    if forall|y: int| rd_instant(db, tb, y + 1) <= #[trigger] rd_instant(da, ta, y) {
        assert(rd_instant(db, tb, 2001int + 1) <= rd_instant(da, ta, 2001));
        assert(rd_instant(db, tb, 2003int + 1) <= rd_instant(da, ta, 2003));
        assert(rd_instant(db, tb, 2004int + 1) <= rd_instant(da, ta, 2004));
        assert(rd_instant(db, tb, 2002) == dby(2002) * 86400 + ib.start_normal_year_offset);
        assert(rd_instant(db, tb, 2004) == dby(2004) * 86400 + ib.start_leap_year_offset);
        assert(rd_instant(db, tb, 2005) == dby(2005) * 86400 + ib.start_normal_year_offset);
    }
}

// (the pair Mm.w.d x Mm.w.d is proved in lemmas/45_mm.rs: lemma_mm_stable)
// Mm.w.d against a Julian-notation day: the audited decision procedure decides order stability (proved)
proof fn lemma_mj_stable(m: MonthWeekDay, tm: int, im: MonthWeekDayCheckInfos, d: RuleDay, td: int, id: JulianDayCheckInfos)
    requires
        mwd_wf(m),
        rd_wf(d),
        day_time_ok(tm),
        day_time_ok(td),
        mwinfo_of(im, m, tm),
        jinfo_of(id, d, td),
    ensures
        pair_stable(RuleDay::MonthWeekDay(m), tm, d, td) == mj_decision(im, id),
{
    hide(rule_daynum);
    let dm = RuleDay::MonthWeekDay(m);
    lemma_mj_same(m, tm, im, d, td, id);
    lemma_mj_next_mj(m, tm, im, d, td, id);
    lemma_mj_next_jm(m, tm, im, d, td, id);
    // if the Julian day never comes after the Mm.w.d day of the same year, it comes before next year's as well
    if mj_j_le_m_same(im, id) {
        assert forall|y: int| #[trigger] rd_instant(d, td, y) <= rd_instant(dm, tm, y + 1) by {
            lemma_instant_step(dm, tm, y);
            assert(rd_instant(d, td, y) <= rd_instant(dm, tm, y));
        }
    }
    if mj_m_le_j_same(im, id) {
        assert forall|y: int| #[trigger] rd_instant(dm, tm, y) <= rd_instant(d, td, y + 1) by {
            lemma_instant_step(d, td, y);
            assert(rd_instant(dm, tm, y) <= rd_instant(d, td, y));
        }
    }
}

// the three relations are symmetric in the roles of the two days
proof fn lemma_pair_stable_sym(d1: RuleDay, t1: int, d2: RuleDay, t2: int)
    ensures
        pair_stable(d1, t1, d2, t2) == pair_stable(d2, t2, d1, t1),
{
}

proof fn lemma_order_stable_is_pair(a: AlternateTime)
    ensures
        order_stable(a) == pair_stable(a.dst_start, a.dst_start_time - a.std.ut_offset, a.dst_end, a.dst_end_time - a.dst.ut_offset),
{
    let d1 = a.dst_start;
    let t1 = a.dst_start_time - a.std.ut_offset;
    let d2 = a.dst_end;
    let t2 = a.dst_end_time - a.dst.ut_offset;
    assert forall|y: int| alt_s(a, y) == #[trigger] rd_instant(d1, t1, y) by {}
    assert forall|y: int| alt_e(a, y) == #[trigger] rd_instant(d2, t2, y) by {}
    assert forall|y: int| #[trigger] alt_s(a, y) == rd_instant(d1, t1, y) by {}
    assert forall|y: int| #[trigger] alt_e(a, y) == rd_instant(d2, t2, y) by {}
}

// ---- C11, Mm.w.d against a Julian-notation day ----------------------------------------------------

// a year with a given pattern of (leap(y), leap(y+1)) - 0: (common, common), 1: (common, leap), 2: (leap, common) -
// whose January 1 falls on weekday r (2001..2028 contain all 21 combinations)
spec fn wit_year(pat: int, r: int) -> int {
    if pat == 0 {
        if r == 1 { 2001 } else if r == 6 { 2005 } else if r == 4 { 2009 } else if r == 2 { 2013 } else if r == 0 { 2017 } else if r == 5 { 2021 } else { 2025 }
    } else if pat == 1 {
        if r == 3 { 2003 } else if r == 1 { 2007 } else if r == 6 { 2011 } else if r == 4 { 2015 } else if r == 2 { 2019 } else if r == 0 { 2023 } else { 2027 }
    } else {
        if r == 4 { 2004 } else if r == 2 { 2008 } else if r == 0 { 2012 } else if r == 5 { 2016 } else if r == 3 { 2020 } else if r == 1 { 2024 } else { 2028 }
    }
}

proof fn lemma_wit_year(pat: int, r: int)
    requires
        0 <= pat <= 2,
        0 <= r <= 6,
    ensures
        weekday(dby(wit_year(pat, r))) == r,
        leap(wit_year(pat, r)) == (pat == 2),
        leap(wit_year(pat, r) + 1) == (pat == 1),
{
}

// offset of the Mm.w.d instant from the start of its year: inside the recorded range of the year's class
proof fn lemma_m_off_range(m: MonthWeekDay, tm: int, im: MonthWeekDayCheckInfos, y: int)
    requires
        mwd_wf(m),
        mwinfo_of(im, m, tm),
    ensures
        leap(y) ==> dby(y) * 86400 + im.start_leap_year_offset_range.0 <= rd_instant(RuleDay::MonthWeekDay(m), tm, y) <= dby(y) * 86400 + im.start_leap_year_offset_range.1,
        !leap(y) ==> dby(y) * 86400 + im.start_normal_year_offset_range.0 <= rd_instant(RuleDay::MonthWeekDay(m), tm, y) <= dby(y) * 86400 + im.start_normal_year_offset_range.1,
{
    lemma_mwd_exists(y, m.month as int, m.week as int, m.week_day as int);
}

// every day of the window is attained: if day lo + k of the month has the rule's weekday, the instant is range.0 + k days
proof fn lemma_m_attain(m: MonthWeekDay, tm: int, im: MonthWeekDayCheckInfos, y: int, k: int)
    requires
        mwd_wf(m),
        mwinfo_of(im, m, tm),
        0 <= k <= 6,
        weekday(days_civil(y, m.month as int, mwd_window(m.month as int, m.week as int, leap(y)).0 + k)) == m.week_day,
    ensures
        rd_instant(RuleDay::MonthWeekDay(m), tm, y) == dby(y) * 86400 + (if leap(y) { im.start_leap_year_offset_range.0 } else { im.start_normal_year_offset_range.0 }) + k * 86400,
{
    let lo = mwd_window(m.month as int, m.week as int, leap(y)).0;
    lemma_mwd_is(y, m.month as int, m.week as int, m.week_day as int, lo + k);
}

proof fn lemma_mod7_add(a: int, c: int, w: int)
    requires
        0 <= w <= 6,
        a % 7 == (w - c) % 7,
    ensures
        (a + c) % 7 == w,
{
}

// for a year pattern and an extreme (k = 0: earliest day of the window, k = 6: latest) there is a year y of that pattern in which
// the Mm.w.d day of year y + sh (sh = 0 or 1) is at that extreme
proof fn lemma_m_extreme_year(m: MonthWeekDay, tm: int, im: MonthWeekDayCheckInfos, pat: int, sh: int, k: int) -> (y: int)
    requires
        mwd_wf(m),
        mwinfo_of(im, m, tm),
        0 <= pat <= 2,
        sh == 0 || sh == 1,
        k == 0 || k == 6,
    ensures
        leap(y) == (pat == 2),
        leap(y + 1) == (pat == 1),
        rd_instant(RuleDay::MonthWeekDay(m), tm, y + sh) == dby(y + sh) * 86400 + (if leap(y + sh) { im.start_leap_year_offset_range.0 } else { im.start_normal_year_offset_range.0 }) + k * 86400,
{
    hide(dby);
    hide(cum);
    let lp = if sh == 0 { pat == 2 } else { pat == 1 };
    let lo = mwd_window(m.month as int, m.week as int, lp).0;
    let c = cum(m.month as int, lp) + lo + k - 1;
    // weekday wanted for January 1 of year y + sh
    let r1 = (m.week_day as int - c) % 7;
    // weekday of January 1 of year y
    let r = if sh == 0 { r1 } else { (r1 - (if pat == 2 { 366int } else { 365 })) % 7 };
    lemma_wit_year(pat, r);
    let y = wit_year(pat, r);
    lemma_dby_step(y);
    assert(leap(y + sh) == lp);
    if sh == 1 {
        lemma_mod7_add(4 + dby(y), if pat == 2 { 366int } else { 365 }, r1);
    }
    assert(weekday(dby(y + sh)) == r1);
    lemma_mod7_add(4 + dby(y + sh), c, m.week_day as int);
    assert(days_civil(y + sh, m.month as int, lo + k) == dby(y + sh) + c);
    assert(weekday(days_civil(y + sh, m.month as int, lo + k)) == m.week_day);
    lemma_m_attain(m, tm, im, y + sh, k);
    y
}

proof fn lemma_mj_same(m: MonthWeekDay, tm: int, im: MonthWeekDayCheckInfos, d: RuleDay, td: int, id: JulianDayCheckInfos)
    requires
        mwd_wf(m),
        mwinfo_of(im, m, tm),
        jinfo_of(id, d, td),
    ensures
        (forall|y: int| rd_instant(RuleDay::MonthWeekDay(m), tm, y) <= #[trigger] rd_instant(d, td, y)) == mj_m_le_j_same(im, id),
        (forall|y: int| rd_instant(d, td, y) <= #[trigger] rd_instant(RuleDay::MonthWeekDay(m), tm, y)) == mj_j_le_m_same(im, id),
{
    hide(rule_daynum);
    hide(dby);
    let dm = RuleDay::MonthWeekDay(m);
    if mj_m_le_j_same(im, id) {
        assert forall|y: int| rd_instant(dm, tm, y) <= #[trigger] rd_instant(d, td, y) by {
            lemma_m_off_range(m, tm, im, y);
        }
    }
    if mj_j_le_m_same(im, id) {
        assert forall|y: int| rd_instant(d, td, y) <= #[trigger] rd_instant(dm, tm, y) by {
            lemma_m_off_range(m, tm, im, y);
            assert(rd_instant(d, td, y) == dby(y) * 86400 + (if leap(y) { id.start_leap_year_offset as int } else { id.start_normal_year_offset as int }));
        }
    }
    if forall|y: int| rd_instant(dm, tm, y) <= #[trigger] rd_instant(d, td, y) {
        let y0 = lemma_m_extreme_year(m, tm, im, 0, 0, 6);
        assert(rd_instant(dm, tm, y0) <= rd_instant(d, td, y0));
        let y2 = lemma_m_extreme_year(m, tm, im, 2, 0, 6);
        assert(rd_instant(dm, tm, y2) <= rd_instant(d, td, y2));
    }
    if forall|y: int| rd_instant(d, td, y) <= #[trigger] rd_instant(dm, tm, y) {
        let y0 = lemma_m_extreme_year(m, tm, im, 0, 0, 0);
        assert(rd_instant(d, td, y0) <= rd_instant(dm, tm, y0));
        assert(rd_instant(d, td, y0) == dby(y0) * 86400 + id.start_normal_year_offset);
        let y2 = lemma_m_extreme_year(m, tm, im, 2, 0, 0);
        assert(rd_instant(d, td, y2) <= rd_instant(dm, tm, y2));
        assert(rd_instant(d, td, y2) == dby(y2) * 86400 + id.start_leap_year_offset);
    }
}

// M(y) against J(y + 1)
proof fn lemma_mj_next_mj(m: MonthWeekDay, tm: int, im: MonthWeekDayCheckInfos, d: RuleDay, td: int, id: JulianDayCheckInfos)
    requires
        mwd_wf(m),
        mwinfo_of(im, m, tm),
        jinfo_of(id, d, td),
    ensures
        (forall|y: int| #[trigger] rd_instant(RuleDay::MonthWeekDay(m), tm, y) <= rd_instant(d, td, y + 1)) == mj_m_le_jnext(im, id),
        (forall|y: int| rd_instant(d, td, y + 1) <= #[trigger] rd_instant(RuleDay::MonthWeekDay(m), tm, y)) == mj_jnext_le_m(im, id),
{
    hide(rule_daynum);
    hide(dby);
    let dm = RuleDay::MonthWeekDay(m);
    assert forall|y: int| #[trigger] dby(y + 1) == dby(y) + (if leap(y) { 366int } else { 365 }) by {
        lemma_dby_step(y);
    }
    if mj_m_le_jnext(im, id) {
        assert forall|y: int| #[trigger] rd_instant(dm, tm, y) <= rd_instant(d, td, y + 1) by {
            lemma_m_off_range(m, tm, im, y);
            lemma_year_patterns(y);
            assert(rd_instant(d, td, y + 1) == dby(y + 1) * 86400 + (if leap(y + 1) { id.start_leap_year_offset as int } else { id.start_normal_year_offset as int }));
        }
    }
    if mj_jnext_le_m(im, id) {
        assert forall|y: int| rd_instant(d, td, y + 1) <= #[trigger] rd_instant(dm, tm, y) by {
            lemma_m_off_range(m, tm, im, y);
            lemma_year_patterns(y);
            assert(rd_instant(d, td, y + 1) == dby(y + 1) * 86400 + (if leap(y + 1) { id.start_leap_year_offset as int } else { id.start_normal_year_offset as int }));
        }
    }
    if forall|y: int| #[trigger] rd_instant(dm, tm, y) <= rd_instant(d, td, y + 1) {
        let y0 = lemma_m_extreme_year(m, tm, im, 0, 0, 6);
        assert(rd_instant(dm, tm, y0) <= rd_instant(d, td, y0 + 1));
        assert(rd_instant(d, td, y0 + 1) == dby(y0 + 1) * 86400 + id.start_normal_year_offset);
        let y1 = lemma_m_extreme_year(m, tm, im, 1, 0, 6);
        assert(rd_instant(dm, tm, y1) <= rd_instant(d, td, y1 + 1));
        assert(rd_instant(d, td, y1 + 1) == dby(y1 + 1) * 86400 + id.start_leap_year_offset);
        let y2 = lemma_m_extreme_year(m, tm, im, 2, 0, 6);
        assert(rd_instant(dm, tm, y2) <= rd_instant(d, td, y2 + 1));
        assert(rd_instant(d, td, y2 + 1) == dby(y2 + 1) * 86400 + id.start_normal_year_offset);
    }
    if forall|y: int| rd_instant(d, td, y + 1) <= #[trigger] rd_instant(dm, tm, y) {
        let y0 = lemma_m_extreme_year(m, tm, im, 0, 0, 0);
        assert(rd_instant(d, td, y0 + 1) <= rd_instant(dm, tm, y0));
        assert(rd_instant(d, td, y0 + 1) == dby(y0 + 1) * 86400 + id.start_normal_year_offset);
        let y1 = lemma_m_extreme_year(m, tm, im, 1, 0, 0);
        assert(rd_instant(d, td, y1 + 1) <= rd_instant(dm, tm, y1));
        assert(rd_instant(d, td, y1 + 1) == dby(y1 + 1) * 86400 + id.start_leap_year_offset);
        let y2 = lemma_m_extreme_year(m, tm, im, 2, 0, 0);
        assert(rd_instant(d, td, y2 + 1) <= rd_instant(dm, tm, y2));
        assert(rd_instant(d, td, y2 + 1) == dby(y2 + 1) * 86400 + id.start_normal_year_offset);
    }
}

// J(y) against M(y + 1)
proof fn lemma_mj_next_jm(m: MonthWeekDay, tm: int, im: MonthWeekDayCheckInfos, d: RuleDay, td: int, id: JulianDayCheckInfos)
    requires
        mwd_wf(m),
        mwinfo_of(im, m, tm),
        jinfo_of(id, d, td),
    ensures
        (forall|y: int| #[trigger] rd_instant(d, td, y) <= rd_instant(RuleDay::MonthWeekDay(m), tm, y + 1)) == mj_j_le_mnext(im, id),
        (forall|y: int| rd_instant(RuleDay::MonthWeekDay(m), tm, y + 1) <= #[trigger] rd_instant(d, td, y)) == mj_mnext_le_j(im, id),
{
    hide(rule_daynum);
    hide(dby);
    let dm = RuleDay::MonthWeekDay(m);
    assert forall|y: int| #[trigger] dby(y + 1) == dby(y) + (if leap(y) { 366int } else { 365 }) by {
        lemma_dby_step(y);
    }
    if mj_j_le_mnext(im, id) {
        assert forall|y: int| #[trigger] rd_instant(d, td, y) <= rd_instant(dm, tm, y + 1) by {
            lemma_m_off_range(m, tm, im, y + 1);
            lemma_year_patterns(y);
        }
    }
    if mj_mnext_le_j(im, id) {
        assert forall|y: int| rd_instant(dm, tm, y + 1) <= #[trigger] rd_instant(d, td, y) by {
            lemma_m_off_range(m, tm, im, y + 1);
            lemma_year_patterns(y);
        }
    }
    if forall|y: int| #[trigger] rd_instant(d, td, y) <= rd_instant(dm, tm, y + 1) {
        let y0 = lemma_m_extreme_year(m, tm, im, 0, 1, 0);
        assert(rd_instant(d, td, y0) <= rd_instant(dm, tm, y0 + 1));
        let y1 = lemma_m_extreme_year(m, tm, im, 1, 1, 0);
        assert(rd_instant(d, td, y1) <= rd_instant(dm, tm, y1 + 1));
        let y2 = lemma_m_extreme_year(m, tm, im, 2, 1, 0);
        assert(rd_instant(d, td, y2) <= rd_instant(dm, tm, y2 + 1));
    }
    if forall|y: int| rd_instant(dm, tm, y + 1) <= #[trigger] rd_instant(d, td, y) {
        let y0 = lemma_m_extreme_year(m, tm, im, 0, 1, 6);
        assert(rd_instant(dm, tm, y0 + 1) <= rd_instant(d, td, y0));
        let y1 = lemma_m_extreme_year(m, tm, im, 1, 1, 6);
        assert(rd_instant(dm, tm, y1 + 1) <= rd_instant(d, td, y1));
        let y2 = lemma_m_extreme_year(m, tm, im, 2, 1, 6);
        assert(rd_instant(dm, tm, y2 + 1) <= rd_instant(d, td, y2));
    }
}

// both kinds of rule day move forward from one year to the next
proof fn lemma_instant_step(d: RuleDay, t: int, y: int)
    requires
        rd_wf(d),
    ensures
        rd_instant(d, t, y) < rd_instant(d, t, y + 1),
{
    lemma_daynum_step(d, y);
}
