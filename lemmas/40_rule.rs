// Lemmas about POSIX rule days and DST periods (pure mathematics over S-CAL / S-RULE)

proof fn lemma_weekday_shift(n: int, k: int)
    ensures
        weekday(n + 7 * k) == weekday(n),
        weekday(n + 1) == (weekday(n) + 1) % 7,
{
}

// the first occurrence of weekday wd counted from a day with weekday a: offset (wd - a) mod 7
proof fn lemma_first_occurrence(n: int, wd: int)
    requires
        0 <= wd <= 6,
    ensures
        ({
            let b = (wd - weekday(n)) % 7;
            &&& 0 <= b <= 6
            &&& weekday(n + b) == wd
        }),
{
}

// existence: the w-th (or last) weekday wd of month m
proof fn lemma_mwd_exists(y: int, m: int, w: int, wd: int)
    requires
        1 <= m <= 12,
        1 <= w <= 5,
        0 <= wd <= 6,
    ensures
        is_mwd_day(y, m, w, wd, mwd_day(y, m, w, wd)),
{
    let n1 = days_civil(y, m, 1);
    lemma_first_occurrence(n1, wd);
    let first = 1 + (wd - weekday(n1)) % 7;
    let d0 = first + 7 * (w - 1);
    let len = dim(m, leap(y));
    let d = if d0 > len { d0 - 7 } else { d0 };
    assert(days_civil(y, m, d) == n1 + (first - 1) + 7 * (if d0 > len { w - 2 } else { w - 1 }));
    lemma_weekday_shift(n1 + (first - 1), if d0 > len { w - 2 } else { w - 1 });
    assert(is_mwd_day(y, m, w, wd, d));
}

// uniqueness: two days of the same month in the same 7-day window with the same weekday are equal
proof fn lemma_mwd_unique(y: int, m: int, w: int, wd: int, d1: int, d2: int)
    requires
        is_mwd_day(y, m, w, wd, d1),
        is_mwd_day(y, m, w, wd, d2),
    ensures
        d1 == d2,
{
    assert(days_civil(y, m, d2) == days_civil(y, m, d1) + (d2 - d1));
    assert(-7 < d2 - d1 < 7);
}

proof fn lemma_mwd_is(y: int, m: int, w: int, wd: int, d: int)
    requires
        1 <= m <= 12,
        1 <= w <= 5,
        0 <= wd <= 6,
        is_mwd_day(y, m, w, wd, d),
    ensures
        d == mwd_day(y, m, w, wd),
{
    lemma_mwd_exists(y, m, w, wd);
    lemma_mwd_unique(y, m, w, wd, d, mwd_day(y, m, w, wd));
}

// the rule day lies inside its year (day 365 of a common year is January 1 of the next)
proof fn lemma_daynum_window(d: RuleDay, y: int)
    requires
        rd_wf(d),
    ensures
        dby(y) <= rule_daynum(d, y) <= dby(y) + 365,
{
    match d {
        RuleDay::MonthWeekDay(m) => {
            lemma_mwd_exists(y, m.month as int, m.week as int, m.week_day as int);
            lemma_cum(m.month as int, leap(y));
            if m.month < 12 {
                lemma_cum_mono(m.month as int, 12, leap(y));
            }
            lemma_cum(12, leap(y));
        },
        _ => {},
    }
}

// from one year to the next the rule day moves forward by about a year
proof fn lemma_daynum_step(d: RuleDay, y: int)
    requires
        rd_wf(d),
    ensures
        358 <= rule_daynum(d, y + 1) - rule_daynum(d, y) <= 373,
{
    lemma_dby_step(y);
    match d {
        RuleDay::MonthWeekDay(m) => {
            lemma_mwd_exists(y, m.month as int, m.week as int, m.week_day as int);
            lemma_mwd_exists(y + 1, m.month as int, m.week as int, m.week_day as int);
            let d1 = mwd_day(y, m.month as int, m.week as int, m.week_day as int);
            let d2 = mwd_day(y + 1, m.month as int, m.week as int, m.week_day as int);
            assert(-7 <= d2 - d1 <= 7);
            assert(days_civil(y + 1, m.month as int, d2) - days_civil(y, m.month as int, d1)
                == ylen(y) + (cum(m.month as int, leap(y + 1)) - cum(m.month as int, leap(y))) + (d2 - d1));
        },
        _ => {},
    }
}

proof fn lemma_alt_window(a: AlternateTime, y: int)
    requires
        alt_wf(a),
    ensures
        (dby(y) - 9) * 86400 < alt_s(a, y) < (dby(y) + 374) * 86400,
        (dby(y) - 9) * 86400 < alt_e(a, y) < (dby(y) + 374) * 86400,
        358 * 86400 <= alt_s(a, y + 1) - alt_s(a, y),
        358 * 86400 <= alt_e(a, y + 1) - alt_e(a, y),
{
    lemma_daynum_window(a.dst_start, y);
    lemma_daynum_window(a.dst_end, y);
    lemma_daynum_step(a.dst_start, y);
    lemma_daynum_step(a.dst_end, y);
}

// C04 core: the "exists a year" of the property reduces to the years next to the one containing u
proof fn lemma_alt_three_years(a: AlternateTime, u: int, c: int)
    requires
        alt_wf(a),
        year_is(u, c),
    ensures
        start_first(a) ==> (in_dst(a, u) <==> ((alt_s(a, c - 1) <= u < alt_e(a, c - 1)) || (alt_s(a, c) <= u < alt_e(a, c)) || (alt_s(a, c + 1) <= u < alt_e(a, c + 1)))),
        !start_first(a) ==> (in_dst(a, u) <==> ((alt_s(a, c - 2) <= u < alt_e(a, c - 1)) || (alt_s(a, c - 1) <= u < alt_e(a, c)) || (alt_s(a, c) <= u < alt_e(a, c + 1)) || (alt_s(a, c + 1) <= u < alt_e(a, c + 2)))),
        alt_s(a, c - 2) <= u < alt_e(a, c + 2),
        alt_s(a, c - 1) < alt_s(a, c) < alt_s(a, c + 1),
        alt_e(a, c - 1) < alt_e(a, c) < alt_e(a, c + 1),
        alt_e(a, c - 2) < alt_e(a, c - 1),
        start_first(a) ==> alt_s(a, c - 1) <= alt_e(a, c - 1) && alt_s(a, c) <= alt_e(a, c) && alt_s(a, c + 1) <= alt_e(a, c + 1),
        !start_first(a) ==> alt_e(a, c - 1) <= alt_s(a, c - 1) && alt_e(a, c) <= alt_s(a, c) && alt_e(a, c + 1) <= alt_s(a, c + 1),
        alt_s(a, c) < alt_e(a, c) ==> start_first(a),
        alt_s(a, c) > alt_e(a, c) ==> !start_first(a),
{
    hide(alt_s);
    hide(alt_e);
    hide(dby);
    hide(alt_wf);
    assert(order_stable(a)) by {
        reveal(alt_wf);
    }
    lemma_alt_window(a, c - 2);
    lemma_alt_window(a, c - 1);
    lemma_alt_window(a, c);
    lemma_alt_window(a, c + 1);
    lemma_alt_window(a, c + 2);
    lemma_dby_step(c - 2);
    lemma_dby_step(c - 1);
    lemma_dby_step(c);
    lemma_dby_step(c + 1);
    if start_first(a) {
        assert(alt_s(a, c - 1) <= alt_e(a, c - 1) && alt_s(a, c) <= alt_e(a, c) && alt_s(a, c + 1) <= alt_e(a, c + 1));
        if in_dst(a, u) {
            let y = choose|y: int| alt_s(a, y) <= u < #[trigger] alt_e(a, y);
            lemma_alt_window(a, y);
            if y <= c - 2 {
                lemma_dby_mono(y, c - 2);
            }
            if y >= c + 2 {
                lemma_dby_mono(c + 2, y);
            }
            assert(c - 1 <= y <= c + 1);
        }
    } else {
        assert(end_first(a));
        assert(alt_e(a, c - 1) <= alt_s(a, c - 1) && alt_e(a, c) <= alt_s(a, c) && alt_e(a, c + 1) <= alt_s(a, c + 1));
        if in_dst(a, u) {
            let y = choose|y: int| #[trigger] alt_s(a, y) <= u < alt_e(a, y + 1);
            lemma_alt_window(a, y);
            lemma_alt_window(a, y + 1);
            if y <= c - 3 {
                lemma_dby_mono(y + 1, c - 2);
            }
            if y >= c + 2 {
                lemma_dby_mono(c + 2, y);
            }
            assert(c - 2 <= y <= c + 1);
        }
    }
    if alt_s(a, c) < alt_e(a, c) && !start_first(a) {
        assert(end_first(a));
        assert(false);
    }
}

proof fn lemma_alt_u_ok(u: int, c: int)
    requires
        year_is(u, c),
    ensures
        alt_u_ok(u) <==> -2147483646 <= c <= 2147483645,
{
    if c < -2147483646 {
        lemma_dby_mono(c + 1, -2147483646);
    }
    if c >= -2147483646 {
        lemma_dby_mono(-2147483646, c);
    }
    if c > 2147483645 {
        lemma_dby_mono(2147483646, c);
    }
    if c <= 2147483645 {
        lemma_dby_mono(c + 1, 2147483646);
    }
}

// C04 corollary: the answer cannot change at a calendar-year boundary unless a start/end instant is there:
// in_dst is defined purely by the start/end instants, and between two consecutive instants of the merged
// sequence it is constant.  Stated for two instants with no start or end instant in (u1, u2].
proof fn prop_c04_no_year_boundary(a: AlternateTime, u1: int, u2: int)
    requires
        u1 <= u2,
        forall|y: int| !(u1 < #[trigger] alt_s(a, y) <= u2),
        forall|y: int| !(u1 < #[trigger] alt_e(a, y) <= u2),
    ensures
        in_dst(a, u1) == in_dst(a, u2),
{
    if start_first(a) {
        if in_dst(a, u1) {
            let y = choose|y: int| alt_s(a, y) <= u1 < #[trigger] alt_e(a, y);
            assert(!(u1 < alt_e(a, y) <= u2));
            assert(alt_s(a, y) <= u2 < alt_e(a, y));
        }
        if in_dst(a, u2) {
            let y = choose|y: int| alt_s(a, y) <= u2 < #[trigger] alt_e(a, y);
            assert(!(u1 < alt_s(a, y) <= u2));
            assert(alt_s(a, y) <= u1 < alt_e(a, y));
        }
    } else {
        if in_dst(a, u1) {
            let y = choose|y: int| #[trigger] alt_s(a, y) <= u1 < alt_e(a, y + 1);
            assert(!(u1 < alt_e(a, y + 1) <= u2));
            assert(alt_s(a, y) <= u2 < alt_e(a, y + 1));
        }
        if in_dst(a, u2) {
            let y = choose|y: int| #[trigger] alt_s(a, y) <= u2 < alt_e(a, y + 1);
            assert(!(u1 < alt_s(a, y) <= u2));
            assert(alt_s(a, y) <= u1 < alt_e(a, y + 1));
        }
    }
}
