// Property-level lemmas: statements of the listed properties over the contracts (no code from /repo)

// secs() is injective on valid field tuples with second < 60: "exactly the fields of that instant"
proof fn lemma_secs_injective(y1: int, m1: int, d1: int, h1: int, mi1: int, s1: int, y2: int, m2: int, d2: int, h2: int, mi2: int, s2: int)
    requires
        valid_date(y1, m1, d1),
        valid_date(y2, m2, d2),
        valid_time(h1, mi1, s1),
        valid_time(h2, mi2, s2),
        secs(y1, m1, d1, h1, mi1, s1) == secs(y2, m2, d2, h2, mi2, s2),
    ensures
        y1 == y2 && m1 == m2 && d1 == d2 && h1 == h2 && mi1 == mi2 && s1 == s2,
{
    lemma_secs_in_year(y1, m1, d1, h1, mi1, s1);
    lemma_secs_in_year(y2, m2, d2, h2, mi2, s2);
    if y1 < y2 {
        lemma_dby_mono(y1 + 1, y2);
    }
    if y2 < y1 {
        lemma_dby_mono(y2 + 1, y1);
    }
    assert(y1 == y2);
    if m1 < m2 {
        lemma_cum_mono(m1, m2, leap(y1));
    }
    if m2 < m1 {
        lemma_cum_mono(m2, m1, leap(y1));
    }
    lemma_cum(m1, leap(y1));
    lemma_cum(m2, leap(y1));
}

proof fn lemma_cum_mono(m1: int, m2: int, lp: bool)
    requires
        1 <= m1 < m2 <= 12,
    ensures
        cum(m1, lp) + dim(m1, lp) <= cum(m2, lp),
{
}

// C01: any field tuple that denotes the instant t (valid date, valid time, second < 60) is the one the
// conversion returns; together with from_timespec's contract this is "yields exactly the fields of that instant"
proof fn prop_c01_exact_fields(dt: UtcDateTime, t: int, y: int, m: int, d: int, h: int, mi: int, s: int)
    requires
        utc_wf(dt) && dt.second < 60 && utc_secs(dt) == t,
        valid_date(y, m, d) && valid_time(h, mi, s) && secs(y, m, d, h, mi, s) == t,
    ensures
        dt.year == y && dt.month == m && dt.month_day == d && dt.hour == h && dt.minute == mi && dt.second == s,
        // the day of week is that of the instant: day number floor(t / 86400), 1970-01-01 a Thursday
        weekday(days_civil(y, m, d)) == weekday(t / 86400),
        0 <= days_civil(y, m, d) - dby(y) < ylen(y),
{
    lemma_secs_injective(dt.year as int, dt.month as int, dt.month_day as int, dt.hour as int, dt.minute as int, dt.second as int, y, m, d, h, mi, s);
    lemma_cum(m, leap(y));
    if m < 12 {
        lemma_cum_mono(m, 12, leap(y));
    }
    lemma_cum(12, leap(y));
}

// ---------------------------------------------------------------------------------------------
// C02

spec fn lex_lt(y1: int, m1: int, d1: int, h1: int, mi1: int, s1: int, y2: int, m2: int, d2: int, h2: int, mi2: int, s2: int) -> bool {
    y1 < y2 || (y1 == y2 && (m1 < m2 || (m1 == m2 && (d1 < d2 || (d1 == d2 && (h1 < h2 || (h1 == h2 && (mi1 < mi2 || (mi1 == mi2 && s1 < s2)))))))))
}

// among date-times with seconds < 60, a later calendar date gives a strictly larger Unix time
proof fn prop_c02_strict_mono(y1: int, m1: int, d1: int, h1: int, mi1: int, s1: int, y2: int, m2: int, d2: int, h2: int, mi2: int, s2: int)
    requires
        valid_date(y1, m1, d1),
        valid_date(y2, m2, d2),
        valid_time(h1, mi1, s1),
        valid_time(h2, mi2, s2),
        lex_lt(y1, m1, d1, h1, mi1, s1, y2, m2, d2, h2, mi2, s2),
    ensures
        secs(y1, m1, d1, h1, mi1, s1) < secs(y2, m2, d2, h2, mi2, s2),
{
    lemma_secs_in_year(y1, m1, d1, h1, mi1, s1);
    lemma_secs_in_year(y2, m2, d2, h2, mi2, s2);
    if y1 < y2 {
        lemma_dby_mono(y1 + 1, y2);
    } else if m1 < m2 {
        lemma_cum_mono(m1, m2, leap(y1));
    }
}

// second 60 denotes second 0 of the next minute
proof fn prop_c02_second_60(y: int, m: int, d: int, h: int, mi: int)
    ensures
        secs(y, m, d, h, mi, 60) == secs(y, m, d, h, mi + 1, 0),
        secs(y, m, d, h, 59, 60) == secs(y, m, d, h + 1, 0, 0),
        secs(y, m, d, h, mi, 60) == secs(y, m, d, h, mi, 59) + 1,
{
}

// composition witnesses: verified code that calls the real functions through their contracts only

// Unix -> calendar -> Unix is the identity
fn compose_c02_unix_cal_unix(t: i64, ns: u32)
{
    match UtcDateTime::from_timespec(t, ns) {
        Ok(dt) => {
            let u = dt.unix_time();
            assert(u == t);
        },
        Err(_) => {},
    }
}

// calendar -> Unix -> calendar is the identity for seconds < 60 (and never refused on the way back)
fn compose_c02_cal_unix_cal(y: i32, m: u8, d: u8, h: u8, mi: u8, s: u8, ns: u32)
{
    match UtcDateTime::new(y, m, d, h, mi, s, ns) {
        Ok(dt) => {
            if s < 60 {
                let t = dt.unix_time();
                match UtcDateTime::from_timespec(t, ns) {
                    Ok(dt2) => {
                        proof {
                            lemma_secs_injective(dt.year as int, dt.month as int, dt.month_day as int, dt.hour as int, dt.minute as int, dt.second as int,
                                dt2.year as int, dt2.month as int, dt2.month_day as int, dt2.hour as int, dt2.minute as int, dt2.second as int);
                        }
                        assert(dt2 == dt);
                    },
                    Err(_) => {
                        assert(false);
                    },
                }
            }
        },
        Err(_) => {},
    }
}

// ---------------------------------------------------------------------------------------------
// C16

// split and recombine is the identity; the nanosecond part is in [0, 1e9)
fn compose_c16_split_recombine(n: i128)
{
    match total_nanoseconds_to_timespec(n) {
        Ok((s, ns)) => {
            let back = nanoseconds_since_unix_epoch(s, ns);
            assert(back == n);
            assert(ns < 1000000000);
        },
        Err(_) => {},
    }
}

// recombine and split is the identity for nanoseconds < 1e9
fn compose_c16_recombine_split(s: i64, ns: u32)
    requires
        ns < 1000000000,
{
    let n = nanoseconds_since_unix_epoch(s, ns);
    match total_nanoseconds_to_timespec(n) {
        Ok((s2, ns2)) => {
            assert(s2 == s && ns2 == ns);
        },
        Err(_) => {
            assert(false);
        },
    }
}

// a UTC date-time built from total nanoseconds equals the one built from the (seconds, nanoseconds) pair
fn compose_c16_utc_same(n: i128)
{
    match total_nanoseconds_to_timespec(n) {
        Ok((s, ns)) => {
            let a = UtcDateTime::from_total_nanoseconds(n);
            let b = UtcDateTime::from_timespec(s, ns);
            match (a, b) {
                (Ok(x), Ok(y)) => {
                    proof {
                        lemma_secs_injective(x.year as int, x.month as int, x.month_day as int, x.hour as int, x.minute as int, x.second as int,
                            y.year as int, y.month as int, y.month_day as int, y.hour as int, y.minute as int, y.second as int);
                    }
                    assert(x == y);
                },
                (Err(_), Err(_)) => {},
                _ => {
                    assert(false);
                },
            }
        },
        Err(_) => {
            let a = UtcDateTime::from_total_nanoseconds(n);
            assert(a is Err);
        },
    }
}
