// Property-level lemmas: statements of the listed properties over the contracts (no code from /repo)

// secs() is injective on valid field tuples with second < 60: "exactly the fields of that instant"
proof fn lemma_secs_injective(y1: int, m1: int, d1: int, h1: int, mi1: int, s1: int, y2: int, m2: int, d2: int, h2: int, mi2: int, s2: int)
    requires
        valid_date(y1, m1, d1),
        valid_date(y2, m2, d2),
        valid_time(h1, mi1, s1),
        valid_time(h2, mi2, s2),
        secs(y1, m1, d1, h1, mi1, s1) == secs(y2, m2, d2, h2, mi2, s2),
    ensures
        y1 == y2 && m1 == m2 && d1 == d2 && h1 == h2 && mi1 == mi2 && s1 == s2,
{
    lemma_secs_in_year(y1, m1, d1, h1, mi1, s1);
    lemma_secs_in_year(y2, m2, d2, h2, mi2, s2);
    if y1 < y2 {
        lemma_dby_mono(y1 + 1, y2);
    }
    if y2 < y1 {
        lemma_dby_mono(y2 + 1, y1);
    }
    assert(y1 == y2);
    if m1 < m2 {
        lemma_cum_mono(m1, m2, leap(y1));
    }
    if m2 < m1 {
        lemma_cum_mono(m2, m1, leap(y1));
    }
    lemma_cum(m1, leap(y1));
    lemma_cum(m2, leap(y1));
}

proof fn lemma_cum_mono(m1: int, m2: int, lp: bool)
    requires
        1 <= m1 < m2 <= 12,
    ensures
        cum(m1, lp) + dim(m1, lp) <= cum(m2, lp),
{
}

// C01: any field tuple that denotes the instant t (valid date, valid time, second < 60) is the one the
// conversion returns; together with from_timespec's contract this is "yields exactly the fields of that instant"
proof fn prop_c01_exact_fields(dt: UtcDateTime, t: int, y: int, m: int, d: int, h: int, mi: int, s: int)
    requires
        utc_wf(dt) && dt.second < 60 && utc_secs(dt) == t,
        valid_date(y, m, d) && valid_time(h, mi, s) && secs(y, m, d, h, mi, s) == t,
    ensures
        dt.year == y && dt.month == m && dt.month_day == d && dt.hour == h && dt.minute == mi && dt.second == s,
        // the day of week is that of the instant: day number floor(t / 86400), 1970-01-01 a Thursday
        weekday(days_civil(y, m, d)) == weekday(t / 86400),
        0 <= days_civil(y, m, d) - dby(y) < ylen(y),
{
    lemma_secs_injective(dt.year as int, dt.month as int, dt.month_day as int, dt.hour as int, dt.minute as int, dt.second as int, y, m, d, h, mi, s);
    lemma_cum(m, leap(y));
    if m < 12 {
        lemma_cum_mono(m, 12, leap(y));
    }
    lemma_cum(12, leap(y));
}
