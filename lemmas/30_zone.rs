// Lemmas about leap-second tables and transition tables (pure mathematics over the spec)

proof fn lemma_leaps_gap(s: Seq<LeapSecond>, i: int, j: int)
    requires
        leaps_wf(s),
        0 <= i <= j < s.len(),
    ensures
        s[j].unix_leap_time - s[i].unix_leap_time >= 2419199 * (j - i),
    decreases j - i,
{
    if i < j {
        lemma_leaps_gap(s, i, j - 1);
        assert(leap_step_ok(s, j - 1));
    }
}

proof fn lemma_leaps_sorted(s: Seq<LeapSecond>)
    requires
        leaps_wf(s),
    ensures
        forall|i: int, j: int| 0 <= i < j < s.len() ==> s[i].unix_leap_time < s[j].unix_leap_time,
{
    assert forall|i: int, j: int| 0 <= i < j < s.len() implies s[i].unix_leap_time < s[j].unix_leap_time by {
        lemma_leaps_gap(s, i, j);
    }
}

proof fn lemma_transitions_gap(t: Seq<Transition>, i: int, j: int)
    requires
        transitions_step_sorted(t),
        0 <= i <= j < t.len(),
    ensures
        t[j].unix_leap_time - t[i].unix_leap_time >= j - i,
    decreases j - i,
{
    if i < j {
        lemma_transitions_gap(t, i, j - 1);
        assert(trans_step_lt(t, j - 1));
    }
}

proof fn lemma_transitions_sorted(t: Seq<Transition>)
    requires
        transitions_step_sorted(t),
    ensures
        transitions_sorted(t),
{
    assert forall|i: int, j: int| 0 <= i < j < t.len() implies t[i].unix_leap_time < t[j].unix_leap_time by {
        lemma_transitions_gap(t, i, j);
    }
}

// |correction| of record i is at most i + 1, and consecutive corrections differ by one
proof fn lemma_corr_bound(s: Seq<LeapSecond>, i: int)
    requires
        leaps_wf(s),
        0 <= i < s.len(),
    ensures
        -(i + 1) <= s[i].correction <= i + 1,
        s[i].correction - leap_prev_corr(s, i) == 1 || s[i].correction - leap_prev_corr(s, i) == -1,
    decreases i,
{
    if i > 0 {
        lemma_corr_bound(s, i - 1);
        assert(leap_step_ok(s, i - 1));
    }
}

// if record k applies at t, so does every earlier record; if record j does not, neither does any later one
proof fn lemma_applies_order(s: Seq<LeapSecond>, j: int, k: int, t: int)
    requires
        leaps_wf(s),
        0 <= j < k < s.len(),
    ensures
        leap_applies(s, k, t) ==> leap_applies(s, j, t),
{
    lemma_leaps_gap(s, j, k);
}

// the correction in force is that of the last applying record
proof fn lemma_corr_at_idx(s: Seq<LeapSecond>, t: int, idx: int, n: int)
    requires
        leaps_wf(s),
        0 <= idx <= n <= s.len(),
        idx > 0 ==> leap_applies(s, idx - 1, t),
        idx < s.len() ==> !leap_applies(s, idx, t),
    ensures
        corr_at(s, t, n) == leap_prev_corr(s, idx),
    decreases n - idx,
{
    if n > idx {
        if n - 1 > idx {
            lemma_applies_order(s, idx, n - 1, t);
        }
        lemma_corr_at_idx(s, t, idx, n - 1);
    }
}

// index of the first record that does not apply at t
spec fn first_not_applying(s: Seq<LeapSecond>, t: int, n: int) -> int
    decreases n,
{
    if n <= 0 {
        0
    } else if leap_applies(s, n - 1, t) {
        n
    } else {
        first_not_applying(s, t, n - 1)
    }
}

proof fn lemma_first_not_applying(s: Seq<LeapSecond>, t: int, n: int)
    requires
        leaps_wf(s),
        0 <= n <= s.len(),
    ensures
        ({
            let idx = first_not_applying(s, t, n);
            &&& 0 <= idx <= n
            &&& (idx > 0 ==> leap_applies(s, idx - 1, t))
            &&& (idx < n ==> !leap_applies(s, idx, t))
            &&& corr_at(s, t, n) == leap_prev_corr(s, idx)
        }),
    decreases n,
{
    if n > 0 && !leap_applies(s, n - 1, t) {
        lemma_first_not_applying(s, t, n - 1);
        let idx = first_not_applying(s, t, n - 1);
        if idx < n - 1 {
            lemma_applies_order(s, idx, n - 1, t);
        }
    }
}

// P1: count -> UTC is monotone; one step of the count moves the UTC value by 0 (inserted second), 1 or 2 (deleted)
proof fn lemma_g_step(s: Seq<LeapSecond>, t: int)
    requires
        leaps_wf(s),
    ensures
        0 <= g_spec(s, t + 1) - g_spec(s, t) <= 2,
{
    let n = s.len() as int;
    lemma_first_not_applying(s, t, n);
    lemma_first_not_applying(s, t + 1, n);
    let i0 = first_not_applying(s, t, n);
    let i1 = first_not_applying(s, t + 1, n);
    // at most one more record applies at t + 1 than at t
    if i0 < n {
        if i0 + 1 < n {
            lemma_leaps_gap(s, i0, i0 + 1);
            assert(!leap_applies(s, i0 + 1, t + 1));
            if i1 > i0 + 1 {
                lemma_applies_order(s, i0 + 1, i1 - 1, t + 1);
            }
        }
        assert(i1 <= i0 + 1);
        lemma_corr_bound(s, i0);
    }
    if i0 > 0 {
        assert(leap_applies(s, i0 - 1, t + 1));
        if i1 < i0 {
            if i1 < i0 - 1 {
                lemma_applies_order(s, i1, i0 - 1, t + 1);
            }
            assert(false);
        }
    }
    assert(i0 <= i1 <= i0 + 1);
}

proof fn lemma_g_mono(s: Seq<LeapSecond>, t1: int, t2: int)
    requires
        leaps_wf(s),
        t1 <= t2,
    ensures
        g_spec(s, t1) <= g_spec(s, t2),
    decreases t2 - t1,
{
    if t1 < t2 {
        lemma_g_mono(s, t1, t2 - 1);
        lemma_g_step(s, t2 - 1);
    }
}

// P4 (Galois connection): if T is the count of u, then for every count T': T' <= T  <=>  g(T') <= u.
// Hence a transition recorded at count T' is in force at u exactly from the UTC instant g(T') on.
proof fn prop_c12_galois(s: Seq<LeapSecond>, u: int, t: int, t2: int)
    requires
        leaps_wf(s),
        is_f(s, u, t),
    ensures
        t2 <= t <==> g_spec(s, t2) <= u,
{
    if t2 <= t {
        lemma_g_mono(s, t2, t);
    } else {
        lemma_g_mono(s, t + 1, t2);
    }
}

// the count of a UTC instant is unique
proof fn prop_c12_f_unique(s: Seq<LeapSecond>, u: int, t: int, t2: int)
    requires
        leaps_wf(s),
        is_f(s, u, t),
        is_f(s, u, t2),
    ensures
        t == t2,
{
    prop_c12_galois(s, u, t, t2);
    prop_c12_galois(s, u, t2, t);
}

// P2: UTC -> count -> UTC is the identity for every instant not deleted by a negative leap second
proof fn prop_c12_roundtrip(s: Seq<LeapSecond>, u: int, t: int)
    requires
        leaps_wf(s),
        is_f(s, u, t),
        !utc_deleted(s, u),
    ensures
        g_spec(s, t) == u,
{
    let n = s.len() as int;
    lemma_g_step(s, t);
    if g_spec(s, t) != u {
        // then the step from t to t+1 is 2: a negative record takes effect at t + 1 and u is the deleted value
        lemma_first_not_applying(s, t, n);
        lemma_first_not_applying(s, t + 1, n);
        let i0 = first_not_applying(s, t, n);
        let i1 = first_not_applying(s, t + 1, n);
        if i0 < n {
            if i0 + 1 < n {
                lemma_leaps_gap(s, i0, i0 + 1);
                if i1 > i0 + 1 {
                    lemma_applies_order(s, i0 + 1, i1 - 1, t + 1);
                }
            }
            lemma_corr_bound(s, i0);
        }
        if i0 > 0 && i1 < i0 {
            if i1 < i0 - 1 {
                lemma_applies_order(s, i1, i0 - 1, t + 1);
            }
        }
        assert(i1 == i0 + 1);
        assert((s[i0].correction as int) < leap_prev_corr(s, i0));
        assert(s[i0].unix_leap_time == t + 1);
        assert(u == s[i0].unix_leap_time - leap_prev_corr(s, i0));
        assert(utc_deleted(s, u));
    }
}

// P3: an inserted leap second shares the UTC value of the second that follows it
proof fn prop_c12_inserted_shares(s: Seq<LeapSecond>, i: int)
    requires
        leaps_wf(s),
        0 <= i < s.len(),
        s[i].correction as int > leap_prev_corr(s, i),
    ensures
        g_spec(s, s[i].unix_leap_time as int) == g_spec(s, s[i].unix_leap_time + 1),
        g_spec(s, s[i].unix_leap_time as int) == s[i].unix_leap_time - leap_prev_corr(s, i),
{
    let n = s.len() as int;
    let l = s[i].unix_leap_time as int;
    lemma_corr_bound(s, i);
    if i > 0 {
        lemma_leaps_gap(s, i - 1, i);
        lemma_corr_bound(s, i - 1);
    }
    if i + 1 < n {
        lemma_leaps_gap(s, i, i + 1);
    }
    lemma_corr_at_idx(s, l, i, n);
    lemma_corr_at_idx(s, l + 1, i + 1, n);
}

// exit state of the UTC -> count scan: record i - 1 was reached, record i was not
proof fn lemma_f_post(s: Seq<LeapSecond>, u: int, i: int)
    requires
        leaps_wf(s),
        0 <= i <= s.len(),
        i > 0 ==> u + leap_prev_corr(s, i - 1) >= s[i - 1].unix_leap_time,
        i < s.len() ==> u + leap_prev_corr(s, i) < s[i].unix_leap_time,
    ensures
        is_f(s, u, u + leap_prev_corr(s, i)),
{
    let n = s.len() as int;
    let t = u + leap_prev_corr(s, i);
    if i < n {
        lemma_corr_bound(s, i);
    }
    if i > 0 {
        lemma_corr_bound(s, i - 1);
        if leap_applies(s, i - 1, t) {
            lemma_corr_at_idx(s, t, i, n);
        } else {
            // u is the UTC value deleted by the negative record i - 1
            if i - 1 > 0 {
                lemma_leaps_gap(s, i - 2, i - 1);
                lemma_corr_bound(s, i - 2);
            }
            lemma_corr_at_idx(s, t, i - 1, n);
        }
    } else {
        lemma_corr_at_idx(s, t, 0, n);
    }
    // t + 1
    if i < n && leap_applies(s, i, t + 1) {
        if i + 1 < n {
            lemma_leaps_gap(s, i, i + 1);
        }
        lemma_corr_at_idx(s, t + 1, i + 1, n);
    } else {
        if i > 0 && !leap_applies(s, i - 1, t + 1) {
            assert(false);
        }
        lemma_corr_at_idx(s, t + 1, i, n);
    }
}

// result of the count -> UTC lookup: `index` records have a time strictly before t; a record exactly at t
// applies as well when it is a negative leap second
proof fn lemma_g_post(s: Seq<LeapSecond>, t: int, index: int)
    requires
        leaps_wf(s),
        0 <= index <= s.len(),
        forall|k: int| 0 <= k < index ==> s[k].unix_leap_time < t,
        forall|k: int| index <= k < s.len() ==> s[k].unix_leap_time >= t,
    ensures
        (index < s.len() && s[index].unix_leap_time == t && (s[index].correction as int) < leap_prev_corr(s, index))
            ==> corr_at(s, t, s.len() as int) == s[index].correction,
        !(index < s.len() && s[index].unix_leap_time == t && (s[index].correction as int) < leap_prev_corr(s, index))
            ==> corr_at(s, t, s.len() as int) == leap_prev_corr(s, index),
{
    let n = s.len() as int;
    if index < n {
        lemma_corr_bound(s, index);
    }
    if index < n && s[index].unix_leap_time == t && (s[index].correction as int) < leap_prev_corr(s, index) {
        if index + 1 < n {
            lemma_leaps_gap(s, index, index + 1);
        }
        lemma_corr_at_idx(s, t, index + 1, n);
    } else {
        lemma_corr_at_idx(s, t, index, n);
    }
}

// ---- C03: assembling the lookup relation from the facts the code establishes ----

proof fn lemma_lookup_table(z: TimeZoneRef, u: int, t: int, index: int, lt: LocalTimeType)
    requires
        z.transitions@.len() > 0,
        transitions_step_sorted(z.transitions@),
        is_f(z.leap_seconds@, u, t),
        i64::MIN <= t <= i64::MAX,
        t < z.transitions@[z.transitions@.len() - 1].unix_leap_time,
        0 <= index <= z.transitions@.len(),
        index > 0 ==> z.transitions@[index - 1].unix_leap_time <= t,
        index < z.transitions@.len() ==> t < z.transitions@[index].unix_leap_time,
        lt == z.local_time_types@[if index > 0 { z.transitions@[index - 1].local_time_type_index as int } else { 0 }],
    ensures
        lookup_ok(z, u, lt),
{
    hide(is_f);
    let tr = z.transitions@;
    lemma_transitions_sorted(tr);
    assert forall|i: int| #[trigger] in_slot(tr, i, t) implies lt == z.local_time_types@[tr[i].local_time_type_index as int] by {
        if i < index - 1 {
            assert(tr[i + 1].unix_leap_time <= tr[index - 1].unix_leap_time);
        }
        if i > index - 1 {
            assert(tr[index].unix_leap_time <= tr[i].unix_leap_time);
        }
    }
    if t < tr[0].unix_leap_time && index > 0 {
        assert(tr[0].unix_leap_time <= tr[index - 1].unix_leap_time);
    }
    assert(table_type_is(tr, z.local_time_types@, t, lt));
}

// facts that hold for every zone: the cases of the lookup that are decided by the trailing rule, by the
// empty table, or by a refusal of the scale conversion
proof fn lemma_lookup_cases(z: TimeZoneRef, u: int, t: int)
    requires
        z.local_time_types@.len() > 0,
    ensures
        z.transitions@.len() == 0 && *z.extra_rule is None ==> lookup_ok(z, u, z.local_time_types@[0]),
        z.transitions@.len() == 0 && *z.extra_rule is Some ==> (forall|lt: LocalTimeType| rule_answer((*z.extra_rule)->Some_0, u, lt) ==> #[trigger] lookup_ok(z, u, lt)),
        z.transitions@.len() == 0 && *z.extra_rule is Some && rule_refuses((*z.extra_rule)->Some_0, u) ==> lookup_err(z, u, TzError::OutOfRange),
        z.transitions@.len() > 0 && leap_conv_overflows(z.leap_seconds@, u) ==> lookup_err(z, u, TzError::OutOfRange),
        z.transitions@.len() > 0 && is_f(z.leap_seconds@, u, t) && i64::MIN <= t <= i64::MAX && t >= z.transitions@[z.transitions@.len() - 1].unix_leap_time ==> {
            &&& (*z.extra_rule is None ==> lookup_err(z, u, TzError::NoAvailableLocalTimeType))
            &&& (*z.extra_rule is Some ==> (forall|lt: LocalTimeType| rule_answer((*z.extra_rule)->Some_0, u, lt) ==> #[trigger] lookup_ok(z, u, lt)))
            &&& (*z.extra_rule is Some && rule_refuses((*z.extra_rule)->Some_0, u) ==> lookup_err(z, u, TzError::OutOfRange))
        },
{
}

// ASSUMED (language guarantee, not provable inside Verus, which only knows len <= usize::MAX): the size in bytes of a
// slice never exceeds isize::MAX, hence for the non-zero-sized element types used here the length fits an isize.
// Only used to show that index arithmetic such as `i + 1` cannot overflow whatever the loop shape.
#[verifier::external_body]
proof fn axiom_slice_len_transitions(s: &[Transition])
    ensures
        s@.len() <= isize::MAX,
{
}

#[verifier::external_body]
proof fn axiom_slice_len_leaps(s: &[LeapSecond])
    ensures
        s@.len() <= isize::MAX,
{
}

// C12, first sentence, as a statement over the lookup's contract: a transition recorded at count T_i takes effect exactly
// at the UTC instant g(T_i) that the count denotes - between g(T_i) and g(T_{i+1}) the lookup answers transition i's type
proof fn prop_c12_transition_takes_effect(z: TimeZoneRef, u: int, lt: LocalTimeType, i: int)
    requires
        zone_wf_base(z),
        lookup_ok(z, u, lt),
        0 <= i < z.transitions@.len() - 1,
        g_spec(z.leap_seconds@, z.transitions@[i].unix_leap_time as int) <= u < g_spec(z.leap_seconds@, z.transitions@[i + 1].unix_leap_time as int),
    ensures
        lt == z.local_time_types@[z.transitions@[i].local_time_type_index as int],
{
    let tr = z.transitions@;
    let s = z.leap_seconds@;
    let t = choose|t: int| #[trigger] is_f(s, u, t) && i64::MIN <= t <= i64::MAX && (
        if t >= tr[tr.len() - 1].unix_leap_time {
            match *z.extra_rule {
                Some(rule) => rule_answer(rule, u, lt),
                None => false,
            }
        } else {
            table_type_is(tr, z.local_time_types@, t, lt)
        });
    prop_c12_galois(s, u, t, tr[i].unix_leap_time as int);
    prop_c12_galois(s, u, t, tr[i + 1].unix_leap_time as int);
    lemma_transitions_sorted(tr);
    assert(tr[i].unix_leap_time <= t < tr[i + 1].unix_leap_time);
    if i + 1 < tr.len() - 1 {
        assert(tr[i + 1].unix_leap_time < tr[tr.len() - 1].unix_leap_time);
    }
    assert(in_slot(tr, i, t));
}

// C13 in one line: outside the carve-out of known finding F2 the constructor accepts exactly the well-formed zones
proof fn prop_c13_exact(z: TimeZoneRef, r: Result<(), TzError>)
    requires
        zone_verdict(z, r),
        !zone_defect_at_last(z),
    ensures
        (r is Ok) <==> zone_wf(z),
{
}
