//! Replay binary: runs the REAL tz-rs code (public API of the copy of /repo it is built against) on concrete
//! inputs and compares with the executable oracle.  Usage:
//!   tzrs-replay probe <property> <seed> <budget>   search for a counterexample (first mismatch, JSON on stdout)
//!   tzrs-replay run <probe> <i1,i2,...>            re-run one recorded input; exit 1 if code and oracle differ
mod oracle;
use oracle as o;
use tz::datetime::{DateTime, FoundDateTimeKind, UtcDateTime};
use tz::timezone::*;
use tz::TzError;

struct Rng(u64);
impl Rng {
    fn next(&mut self) -> u64 {
        self.0 ^= self.0 << 13;
        self.0 ^= self.0 >> 7;
        self.0 ^= self.0 << 17;
        self.0
    }
    fn range(&mut self, lo: i128, hi: i128) -> i128 {
        let span = (hi - lo + 1) as u128;
        let r = ((self.next() as u128) << 64 | self.next() as u128) % span;
        lo + r as i128
    }
    fn pick<T: Copy>(&mut self, xs: &[T]) -> T {
        xs[(self.next() % xs.len() as u64) as usize]
    }
}

type Mismatch = (String, String);

struct Probe {
    name: &'static str,
    property: &'static str,
    gen: fn(&mut Rng, usize, &mut dyn FnMut(Vec<i128>) -> bool),
    eval: fn(&[i128]) -> Result<(), Mismatch>,
}

fn err_name<T>(r: &Result<T, TzError>) -> String {
    match r {
        Ok(_) => "Ok".into(),
        Err(e) => format!("Err({e:?})"),
    }
}

fn utc_fields(dt: &UtcDateTime) -> (i128, i128, i128, i128, i128, i128) {
    (dt.year() as i128, dt.month() as i128, dt.month_day() as i128, dt.hour() as i128, dt.minute() as i128, dt.second() as i128)
}

fn dt_fields(dt: &DateTime) -> (i128, i128, i128, i128, i128, i128) {
    (dt.year() as i128, dt.month() as i128, dt.month_day() as i128, dt.hour() as i128, dt.minute() as i128, dt.second() as i128)
}

// ---------------------------------------------------------------------------------------------- C01

fn interesting_instants(rng: &mut Rng, n: usize, emit: &mut dyn FnMut(i128) -> bool) {
    let base = 951868800i128;
    let amax = (o::utc_max() - base) / (146097 * 86400);
    let amin = (o::utc_min() - base).div_euclid(146097 * 86400);
    for a in [amin - 1, amin, amin + 1, -6, -5, -1, 0, 1, 2, amax - 1, amax, amax + 1] {
        for b in [0i128, 1, 3, 4] {
            for c in [0i128, 1, 23, 24, 25] {
                for e in [0i128, 1, 3, 4] {
                    for md in [0i128, 1, 30, 31, 305, 306, 336, 337, 364, 365, 366] {
                        for sod in [-1i128, 0, 1, 59, 60, 3599, 3600, 43200, 86399] {
                            let t = base + 86400 * (146097 * a + 36524 * b + 1461 * c + 365 * e + md) + sod;
                            if (i64::MIN as i128..=i64::MAX as i128).contains(&t) && !emit(t) {
                                return;
                            }
                        }
                    }
                }
            }
        }
    }
    for t in [o::utc_min() - 1, o::utc_min(), o::utc_min() + 1, o::utc_max() - 1, o::utc_max(), o::utc_max() + 1, i64::MIN as i128, i64::MIN as i128 + 1, i64::MAX as i128, -1, 0, 1, 86399, 86400, -86400, -86401] {
        if !emit(t) {
            return;
        }
    }
    for _ in 0..n {
        let t = match rng.next() % 4 {
            0 => rng.range(-4_000_000_000, 8_000_000_000),
            1 => rng.range(o::utc_min() - 1000, o::utc_max() + 1000),
            2 => rng.range(i64::MIN as i128, i64::MAX as i128),
            _ => {
                let y = rng.range(-2147483648, 2147483647);
                o::dby(y) * 86400 + rng.range(-90000, 90000 + 367 * 86400)
            }
        };
        if (i64::MIN as i128..=i64::MAX as i128).contains(&t) && !emit(t) {
            return;
        }
    }
}

fn gen_c01(rng: &mut Rng, n: usize, emit: &mut dyn FnMut(Vec<i128>) -> bool) {
    let mut r2 = Rng(rng.next() | 1);
    interesting_instants(rng, n, &mut |t| emit(vec![t, r2.pick(&[0i128, 1, 999_999_999, 1_000_000_000, u32::MAX as i128])]));
}

fn eval_c01(x: &[i128]) -> Result<(), Mismatch> {
    let (t, ns) = (x[0], x[1]);
    let r = UtcDateTime::from_timespec(t as i64, ns as u32);
    if o::utc_min() <= t && t <= o::utc_max() {
        let f = o::fields(t);
        let day = t.div_euclid(86400);
        let exp = format!("Ok fields={:?} ns={} week_day={} year_day={}", f, ns, o::weekday(day), day - o::dby(f.0));
        match &r {
            Ok(dt) => {
                let act = format!("Ok fields={:?} ns={} week_day={} year_day={}", utc_fields(dt), dt.nanoseconds(), dt.week_day(), dt.year_day());
                if act != exp {
                    return Err((exp, act));
                }
                if dt.unix_time() as i128 != t {
                    return Err((format!("unix_time()={t}"), format!("unix_time()={}", dt.unix_time())));
                }
                Ok(())
            }
            Err(_) => Err((exp, err_name(&r))),
        }
    } else {
        match &r {
            Err(TzError::OutOfRange) => Ok(()),
            _ => Err(("Err(OutOfRange)".into(), match &r { Ok(dt) => format!("Ok fields={:?}", utc_fields(dt)), e => err_name(e) })),
        }
    }
}

// ---------------------------------------------------------------------------------------------- C02

fn gen_fields(rng: &mut Rng, n: usize, emit: &mut dyn FnMut(Vec<i128>) -> bool) {
    let years = [i32::MIN as i128, i32::MIN as i128 + 1, -401, -400, -101, -100, -5, -4, -1, 0, 1, 4, 100, 400, 1599, 1600, 1899, 1900, 1967, 1968, 1969, 1970, 1971, 1972, 1999, 2000, 2001, 2023, 2024, 2100, 2400, i32::MAX as i128 - 1, i32::MAX as i128];
    for &y in &years {
        for m in 0..=13i128 {
            for d in [0i128, 1, 2, 27, 28, 29, 30, 31, 32] {
                for (h, mi, s) in [(0i128, 0i128, 0i128), (23, 59, 59), (23, 59, 60), (24, 0, 0), (0, 60, 0), (0, 0, 61), (12, 30, 30)] {
                    if !emit(vec![y, m, d, h, mi, s, 0]) {
                        return;
                    }
                }
            }
        }
    }
    emit(vec![2000, 1, 1, 0, 0, 0, 999_999_999]);
    emit(vec![2000, 1, 1, 0, 0, 0, 1_000_000_000]);
    for _ in 0..n {
        let y = if rng.next() % 2 == 0 { rng.range(1, 3000) } else { rng.range(i32::MIN as i128, i32::MAX as i128) };
        let v = vec![y, rng.range(0, 13), rng.range(0, 32), rng.range(0, 24), rng.range(0, 60), rng.range(0, 61), rng.pick(&[0i128, 5, 999_999_999, 1_000_000_000])];
        if !emit(v) {
            return;
        }
    }
}

fn eval_c02(x: &[i128]) -> Result<(), Mismatch> {
    let (y, m, d, h, mi, s, ns) = (x[0], x[1], x[2], x[3], x[4], x[5], x[6]);
    let r = UtcDateTime::new(y as i32, m as u8, d as u8, h as u8, mi as u8, s as u8, ns as u32);
    let valid = o::valid_date(y, m, d) && h <= 23 && mi <= 59 && s <= 60 && ns < 1_000_000_000;
    let maxleap = y == i32::MAX as i128 && m == 12 && d == 31 && h == 23 && mi == 59 && s == 60;
    if valid && !maxleap {
        let t = o::secs(y, m, d, h, mi, s);
        match &r {
            Ok(dt) => {
                if dt.unix_time() as i128 != t {
                    return Err((format!("unix_time={t}"), format!("unix_time={}", dt.unix_time())));
                }
                if s < 60 {
                    let back = UtcDateTime::from_timespec(dt.unix_time(), ns as u32);
                    match &back {
                        Ok(b) if utc_fields(b) == (y, m, d, h, mi, s) && b.nanoseconds() as i128 == ns => {}
                        Ok(b) => return Err((format!("round trip fields={:?}", (y, m, d, h, mi, s)), format!("round trip fields={:?}", utc_fields(b)))),
                        e => return Err(("round trip Ok".into(), err_name(e))),
                    }
                }
                Ok(())
            }
            e => Err((format!("Ok unix_time={t}"), err_name(e))),
        }
    } else {
        match &r {
            Ok(dt) => Err(("Err (invalid date-time refused)".into(), format!("Ok fields={:?}", utc_fields(dt)))),
            Err(TzError::OutOfRange) if maxleap => Ok(()),
            Err(TzError::DateTime(_)) if !valid => Ok(()),
            e => Err((if maxleap && valid { "Err(OutOfRange)".into() } else { "Err(DateTime(_))".into() }, err_name(e))),
        }
    }
}

fn gen_c02_ord(rng: &mut Rng, n: usize, emit: &mut dyn FnMut(Vec<i128>) -> bool) {
    let mut pool: Vec<Vec<i128>> = Vec::new();
    gen_fields(rng, n / 4, &mut |v| {
        if o::valid_date(v[0], v[1], v[2]) && v[3] <= 23 && v[4] <= 59 && v[5] <= 59 && v[6] < 1_000_000_000 {
            pool.push(v);
        }
        pool.len() < 400
    });
    for i in 0..pool.len() {
        let j = (rng.next() % pool.len() as u64) as usize;
        let mut v = pool[i].clone();
        v.extend(pool[j].iter());
        if !emit(v) {
            return;
        }
        // neighbours differing in one field only
        for k in 0..6 {
            let mut w = pool[i].clone();
            w[k] += 1;
            if o::valid_date(w[0], w[1], w[2]) && w[0] <= i32::MAX as i128 && w[3] <= 23 && w[4] <= 59 && w[5] <= 59 {
                let mut v = pool[i].clone();
                v.extend(w.iter());
                if !emit(v) {
                    return;
                }
            }
        }
    }
}

fn eval_c02_ord(x: &[i128]) -> Result<(), Mismatch> {
    let a = UtcDateTime::new(x[0] as i32, x[1] as u8, x[2] as u8, x[3] as u8, x[4] as u8, x[5] as u8, x[6] as u32);
    let b = UtcDateTime::new(x[7] as i32, x[8] as u8, x[9] as u8, x[10] as u8, x[11] as u8, x[12] as u8, x[13] as u32);
    if let (Ok(a), Ok(b)) = (a, b) {
        let ta = (o::secs(x[0], x[1], x[2], x[3], x[4], x[5]), x[6]);
        let tb = (o::secs(x[7], x[8], x[9], x[10], x[11], x[12]), x[13]);
        let exp = ta.cmp(&tb);
        let act = a.cmp(&b);
        let act2 = (a.unix_time(), a.nanoseconds()).cmp(&(b.unix_time(), b.nanoseconds()));
        if act != exp || act2 != exp {
            return Err((format!("{exp:?}"), format!("cmp={act:?} by_unix_time={act2:?}")));
        }
    }
    Ok(())
}

// ---------------------------------------------------------------------------------------------- C16

fn gen_c16(rng: &mut Rng, n: usize, emit: &mut dyn FnMut(Vec<i128>) -> bool) {
    let e9 = 1_000_000_000i128;
    for k in [0i128, 1, -1, 2, -2, 1_600_000_000, -1_600_000_000, o::utc_min(), o::utc_max(), o::utc_min() - 1, o::utc_max() + 1, i64::MIN as i128, i64::MAX as i128, i64::MIN as i128 - 1, i64::MAX as i128 + 1] {
        for dlt in [-1i128, 0, 1, e9 - 1, e9 / 2] {
            if !emit(vec![k * e9 + dlt]) {
                return;
            }
        }
    }
    for v in [i128::MIN, i128::MIN + 1, i128::MAX, i128::MAX - 1] {
        emit(vec![v]);
    }
    for _ in 0..n {
        let v = match rng.next() % 3 {
            0 => rng.range(-4_000_000_000 * e9, 8_000_000_000 * e9),
            1 => rng.range(o::utc_min() * e9 - e9 * 5, o::utc_max() * e9 + e9 * 5),
            _ => rng.range(i128::MIN / 4, i128::MAX / 4),
        };
        if !emit(vec![v]) {
            return;
        }
    }
}

fn eval_c16(x: &[i128]) -> Result<(), Mismatch> {
    let n = x[0];
    let (s, ns) = (n.div_euclid(1_000_000_000), n.rem_euclid(1_000_000_000));
    let a = UtcDateTime::from_total_nanoseconds(n);
    if o::utc_min() <= s && s <= o::utc_max() {
        let b = UtcDateTime::from_timespec(s as i64, ns as u32);
        match (&a, &b) {
            (Ok(a), Ok(b)) => {
                if a != b || a.nanoseconds() as i128 != ns || utc_fields(a) != o::fields(s) {
                    return Err((format!("fields={:?} ns={ns}", o::fields(s)), format!("from_total={:?}/{} from_timespec={:?}/{}", utc_fields(a), a.nanoseconds(), utc_fields(b), b.nanoseconds())));
                }
                if a.total_nanoseconds() != n {
                    return Err((format!("total_nanoseconds={n}"), format!("total_nanoseconds={}", a.total_nanoseconds())));
                }
                let z = DateTime::from_total_nanoseconds(n, TimeZoneRef::utc());
                match z {
                    Ok(z) if z.total_nanoseconds() == n && z.unix_time() as i128 == s && z.nanoseconds() as i128 == ns => Ok(()),
                    Ok(z) => Err((format!("zoned total={n}"), format!("zoned total={} unix_time={} ns={}", z.total_nanoseconds(), z.unix_time(), z.nanoseconds()))),
                    Err(e) => Err(("zoned Ok".into(), format!("Err({e:?})"))),
                }
            }
            _ => Err(("Ok".into(), format!("from_total={} from_timespec={}", err_name(&a), err_name(&b)))),
        }
    } else {
        match &a {
            Err(TzError::OutOfRange) => Ok(()),
            e => Err(("Err(OutOfRange)".into(), err_name(e))),
        }
    }
}

// ---------------------------------------------------------------------------------------------- C14

fn gen_c14_new(rng: &mut Rng, n: usize, emit: &mut dyn FnMut(Vec<i128>) -> bool) {
    let offs = [0i128, 1, -1, 3600, -3600, 86399, -86400, i32::MAX as i128, i32::MIN as i128 + 1, 59, -59, 3661];
    let mut r2 = Rng(rng.next() | 1);
    gen_fields(rng, n, &mut |mut v| {
        v.push(r2.pick(&offs));
        emit(v)
    });
}

fn eval_c14_new(x: &[i128]) -> Result<(), Mismatch> {
    let (y, m, d, h, mi, s, ns, off) = (x[0], x[1], x[2], x[3], x[4], x[5], x[6], x[7]);
    let lt = LocalTimeType::with_ut_offset(off as i32).map_err(|e| ("valid offset".to_string(), format!("{e:?}")))?;
    let r = DateTime::new(y as i32, m as u8, d as u8, h as u8, mi as u8, s as u8, ns as u32, lt);
    let valid = o::valid_date(y, m, d) && h <= 23 && mi <= 59 && s <= 60 && ns < 1_000_000_000;
    let t = if valid { o::secs(y, m, d, h, mi, s) - off } else { 0 };
    if valid && o::utc_min() <= t && t <= o::utc_max() {
        match &r {
            Ok(dt) => {
                if dt.unix_time() as i128 != t || dt_fields(dt) != (y, m, d, h, mi, s) || dt.nanoseconds() as i128 != ns || dt.local_time_type().ut_offset() as i128 != off {
                    return Err((format!("unix_time={t} fields kept"), format!("unix_time={} fields={:?}", dt.unix_time(), dt_fields(dt))));
                }
                // projection keeps the instant; the UTC view shows the UTC fields of it
                match dt.project(TimeZoneRef::utc()) {
                    Ok(p) => {
                        if p.unix_time() as i128 != t || p.nanoseconds() as i128 != ns || dt_fields(&p) != o::fields(t) || !(p == *dt) || p.partial_cmp(dt) != Some(core::cmp::Ordering::Equal) {
                            return Err((format!("projection unix_time={t} fields={:?} equal", o::fields(t)), format!("unix_time={} fields={:?} eq={}", p.unix_time(), dt_fields(&p), p == *dt)));
                        }
                        Ok(())
                    }
                    Err(e) => Err(("projection Ok".into(), format!("Err({e:?})"))),
                }
            }
            e => Err((format!("Ok unix_time={t}"), err_name(e))),
        }
    } else {
        match &r {
            Ok(dt) => Err(("Err".into(), format!("Ok unix_time={}", dt.unix_time()))),
            Err(TzError::DateTime(_)) if !valid => Ok(()),
            Err(TzError::OutOfRange) if valid => Ok(()),
            e => Err((if valid { "Err(OutOfRange)".into() } else { "Err(DateTime(_))".into() }, err_name(e))),
        }
    }
}

fn gen_c14_ts(rng: &mut Rng, n: usize, emit: &mut dyn FnMut(Vec<i128>) -> bool) {
    let offs = [0i128, 1, -1, 3600, -3600, 86399, -86400, i32::MAX as i128, i32::MIN as i128 + 1, 59, -59];
    let mut r2 = Rng(rng.next() | 1);
    interesting_instants(rng, n, &mut |t| {
        let off = r2.pick(&offs);
        emit(vec![t, r2.pick(&[0i128, 999_999_999]), off]) && (t - off < i64::MIN as i128 || t - off > i64::MAX as i128 || emit(vec![t - off, 7, off]))
    });
}

fn eval_c14_ts(x: &[i128]) -> Result<(), Mismatch> {
    let (t, ns, off) = (x[0], x[1], x[2]);
    let lt = LocalTimeType::with_ut_offset(off as i32).map_err(|e| ("valid offset".to_string(), format!("{e:?}")))?;
    let r = DateTime::from_timespec_and_local(t as i64, ns as u32, lt);
    let loc = t + off;
    if o::utc_min() <= loc && loc <= o::utc_max() {
        match &r {
            Ok(dt) => {
                if dt.unix_time() as i128 != t || dt.nanoseconds() as i128 != ns || dt_fields(dt) != o::fields(loc) || dt.local_time_type().ut_offset() as i128 != off {
                    return Err((format!("unix_time={t} ns={ns} fields={:?}", o::fields(loc)), format!("unix_time={} ns={} fields={:?}", dt.unix_time(), dt.nanoseconds(), dt_fields(dt))));
                }
                // same instant, other offset: equal and not ordered apart
                if let Ok(other) = DateTime::from_timespec_and_local(t as i64, ns as u32, LocalTimeType::utc()) {
                    if !(other == *dt) || other.partial_cmp(dt) != Some(core::cmp::Ordering::Equal) {
                        return Err(("same instant compares equal".into(), "not equal".into()));
                    }
                }
                if let Ok(later) = DateTime::from_timespec_and_local(t as i64, ns as u32 + 1, LocalTimeType::utc()) {
                    if !(*dt < later) || *dt == later {
                        return Err(("one nanosecond later compares greater".into(), "not greater".into()));
                    }
                }
                Ok(())
            }
            e => Err((format!("Ok fields={:?}", o::fields(loc)), err_name(e))),
        }
    } else {
        match &r {
            Err(TzError::OutOfRange) => Ok(()),
            e => Err(("Err(OutOfRange)".into(), err_name(e))),
        }
    }
}

// ---------------------------------------------------------------------------------------------- zones (C03, C12, C13)

struct ZoneSpec {
    leaps: Vec<(i128, i128)>,
    trans: Vec<(i128, i128)>,
    offs: Vec<i128>,
    fixed_rule: Option<i128>,
    /// designation of the rule's type: 0 = the same as every table type ("ABC"), 1 = "XBC", 2 = "ABD", 3 = "ABCD", 4 = none
    rule_name: i128,
}

fn decode_zone(x: &[i128]) -> (ZoneSpec, usize) {
    let mut p = 0;
    let nl = x[p] as usize;
    p += 1;
    let leaps = (0..nl).map(|i| (x[p + 2 * i], x[p + 2 * i + 1])).collect();
    p += 2 * nl;
    let nt = x[p] as usize;
    p += 1;
    let trans = (0..nt).map(|i| (x[p + 2 * i], x[p + 2 * i + 1])).collect();
    p += 2 * nt;
    let ny = x[p] as usize;
    p += 1;
    let offs = x[p..p + ny].to_vec();
    p += ny;
    let fixed_rule = if x[p] >= 1 { Some(x[p + 1]) } else { None };
    let rule_name = if x[p] >= 1 { x[p] - 1 } else { 0 };
    p += 2;
    (ZoneSpec { leaps, trans, offs, fixed_rule, rule_name }, p)
}

fn encode_zone(z: &ZoneSpec) -> Vec<i128> {
    let mut v = vec![z.leaps.len() as i128];
    for l in &z.leaps {
        v.extend([l.0, l.1]);
    }
    v.push(z.trans.len() as i128);
    for t in &z.trans {
        v.extend([t.0, t.1]);
    }
    v.push(z.offs.len() as i128);
    v.extend(z.offs.iter());
    match z.fixed_rule {
        Some(o) => v.extend([1 + z.rule_name, o]),
        None => v.extend([0, 0]),
    }
    v
}

struct Built {
    leaps: Vec<LeapSecond>,
    trans: Vec<Transition>,
    types: Vec<LocalTimeType>,
    rule: Option<TransitionRule>,
}

fn build(z: &ZoneSpec) -> Built {
    Built {
        leaps: z.leaps.iter().map(|l| LeapSecond::new(l.0 as i64, l.1 as i32)).collect(),
        trans: z.trans.iter().map(|t| Transition::new(t.0 as i64, t.1 as usize)).collect(),
        types: z.offs.iter().map(|&o| LocalTimeType::new(o as i32, o % 2 != 0, Some(b"ABC")).unwrap()).collect(),
        rule: z.fixed_rule.map(|o| {
            let name: Option<&[u8]> = match z.rule_name { 0 => Some(b"ABC"), 1 => Some(b"XBC"), 2 => Some(b"ABD"), 3 => Some(b"ABCD"), _ => None };
            TransitionRule::Fixed(LocalTimeType::new(o as i32, o % 2 != 0, name).unwrap())
        }),
    }
}

fn oracle_zone_wf(z: &ZoneSpec) -> Result<(), &'static str> {
    if z.offs.is_empty() {
        return Err("NoLocalTimeType");
    }
    for (i, t) in z.trans.iter().enumerate() {
        if t.1 as usize >= z.offs.len() {
            return Err("InvalidLocalTimeTypeIndex");
        }
        if i + 1 < z.trans.len() && t.0 >= z.trans[i + 1].0 {
            return Err("InvalidTransition");
        }
    }
    if !o::leaps_wf(&z.leaps) {
        return Err("InvalidLeapSecond");
    }
    if let (Some(ro), Some(last)) = (z.fixed_rule, z.trans.last()) {
        let u = o::g(&z.leaps, last.0);
        if last.0 == i64::MIN as i128 || u < i64::MIN as i128 || u > i64::MAX as i128 {
            return Err("OutOfRange");
        }
        if z.offs[last.1 as usize] != ro || z.rule_name != 0 {
            return Err("InconsistentExtraRule");
        }
    }
    Ok(())
}

fn random_leaps(rng: &mut Rng, allow_neg: bool) -> Vec<(i128, i128)> {
    let n = rng.range(0, 4);
    let mut v = Vec::new();
    let mut t = rng.pick(&[0i128, 1000, 78796800]);
    let mut c = 0;
    for _ in 0..n {
        c += if allow_neg && rng.next() % 2 == 0 { -1 } else { 1 };
        v.push((t, c));
        t += 2419199 + rng.pick(&[0i128, 1, 86400, 15638401]);
    }
    v
}

fn gen_c03(rng: &mut Rng, n: usize, emit: &mut dyn FnMut(Vec<i128>) -> bool) {
    for round in 0..(n / 8 + 40) {
        let nt = rng.range(0, 5) as usize;
        let ny = rng.range(1, 3) as usize;
        let offs: Vec<i128> = (0..ny).map(|i| (i as i128) * 3600 + rng.pick(&[0i128, 1, -7200])).collect();
        let mut t = match round % 5 {
            0 => i64::MIN as i128,
            1 => rng.range(-1000, 1000),
            2 => i64::MAX as i128 - 10,
            _ => rng.range(-4_000_000_000, 4_000_000_000),
        };
        let mut trans = Vec::new();
        for _ in 0..nt {
            if t > i64::MAX as i128 {
                break;
            }
            trans.push((t, rng.range(0, ny as i128 - 1)));
            t += rng.pick(&[1i128, 2, 3600, 86400, 15_000_000]);
        }
        let leaps = if round % 3 == 0 { random_leaps(rng, round % 2 == 0) } else { vec![] };
        let fixed_rule = if round % 4 == 1 && !trans.is_empty() { Some(offs[trans.last().unwrap().1 as usize]) } else { None };
        let z = ZoneSpec { leaps, trans, offs, fixed_rule, rule_name: 0 };
        let mut us: Vec<i128> = vec![i64::MIN as i128, i64::MAX as i128, 0];
        for tr in &z.trans {
            let u = o::g(&z.leaps, tr.0);
            us.extend([u - 2, u - 1, u, u + 1, u + 2]);
        }
        for l in &z.leaps {
            us.extend([l.0 - l.1 - 1, l.0 - l.1, l.0 - l.1 + 1, l.0 - l.1 + 2]);
        }
        for u in us {
            if (i64::MIN as i128..=i64::MAX as i128).contains(&u) {
                let mut v = vec![u];
                v.extend(encode_zone(&z));
                if !emit(v) {
                    return;
                }
            }
        }
    }
}

fn eval_c03(x: &[i128]) -> Result<(), Mismatch> {
    let u = x[0];
    let (z, _) = decode_zone(&x[1..]);
    if oracle_zone_wf(&z).is_err() {
        return Ok(());
    }
    let b = build(&z);
    let tz = match TimeZoneRef::new(&b.trans, &b.types, &b.leaps, &b.rule) {
        Ok(tz) => tz,
        Err(e) => return Err(("zone accepted".into(), format!("Err({e:?})"))),
    };
    let r = tz.find_local_time_type(u as i64);
    let t = o::f(&z.leaps, u);
    // the conversion to the counting scale may refuse as soon as some u + correction leaves the i64 range
    let conv_may_overflow = z.leaps.iter().any(|l| u + l.1 < i64::MIN as i128 || u + l.1 > i64::MAX as i128);
    if conv_may_overflow && !z.trans.is_empty() && matches!(r, Err(TzError::OutOfRange)) {
        return Ok(());
    }
    let exp: Result<i128, &str> = if z.trans.is_empty() {
        Ok(z.fixed_rule.unwrap_or(z.offs[0]))
    } else if t < i64::MIN as i128 || t > i64::MAX as i128 {
        Err("OutOfRange")
    } else if t >= z.trans.last().unwrap().0 {
        z.fixed_rule.ok_or("NoAvailableLocalTimeType")
    } else {
        match z.trans.iter().rev().find(|tr| tr.0 <= t) {
            Some(tr) => Ok(z.offs[tr.1 as usize]),
            None => Ok(z.offs[0]),
        }
    };
    let act: Result<i128, String> = match &r {
        Ok(lt) => Ok(lt.ut_offset() as i128),
        Err(e) => Err(format!("{e:?}")),
    };
    let same = match (&exp, &act) {
        (Ok(a), Ok(b)) => a == b,
        (Err(a), Err(b)) => *a == b.as_str(),
        _ => false,
    };
    if !same {
        return Err((format!("{exp:?}"), format!("{act:?}")));
    }
    // the resulting local date-time is the UTC calendar date of (instant + offset)
    if let Ok(off) = exp {
        let loc = u + off;
        let dt = DateTime::from_timespec(u as i64, 5, tz);
        if o::utc_min() <= loc && loc <= o::utc_max() {
            match &dt {
                Ok(dt) if dt_fields(dt) == o::fields(loc) && dt.unix_time() as i128 == u && dt.nanoseconds() == 5 => {}
                Ok(dt) => return Err((format!("fields={:?}", o::fields(loc)), format!("fields={:?}", dt_fields(dt)))),
                e => return Err((format!("Ok fields={:?}", o::fields(loc)), err_name(e))),
            }
        } else if !matches!(dt, Err(TzError::OutOfRange)) {
            return Err(("Err(OutOfRange)".into(), err_name(&dt)));
        }
    }
    Ok(())
}

fn gen_c12(rng: &mut Rng, n: usize, emit: &mut dyn FnMut(Vec<i128>) -> bool) {
    for round in 0..(n / 4 + 60) {
        let mut leaps = random_leaps(rng, true);
        if round == 0 {
            leaps = vec![(1000, 1), (1000 + 2419200, 0)];
        }
        if round == 1 {
            leaps = vec![(0, -1), (2419199, -2), (2419199 * 2, -1)];
        }
        let mut cands = vec![rng.range(-5000, 5_000_000)];
        for l in &leaps {
            cands.extend([l.0 - 1, l.0, l.0 + 1, l.0 + 2]);
        }
        for tt in cands {
            let mut v = vec![tt];
            v.push(leaps.len() as i128);
            for l in &leaps {
                v.extend([l.0, l.1]);
            }
            if !emit(v) {
                return;
            }
        }
    }
}

/// zone: offsets 0 -> +3600 at count tt (and a far transition so that the first one is not the last)
fn eval_c12(x: &[i128]) -> Result<(), Mismatch> {
    let tt = x[0];
    let nl = x[1] as usize;
    let leaps: Vec<(i128, i128)> = (0..nl).map(|i| (x[2 + 2 * i], x[3 + 2 * i])).collect();
    if !o::leaps_wf(&leaps) {
        return Ok(());
    }
    let z = ZoneSpec { leaps: leaps.clone(), trans: vec![(tt, 1), (i64::MAX as i128, 1)], offs: vec![0, 3600], fixed_rule: None, rule_name: 0 };
    let b = build(&z);
    let tz = match TimeZoneRef::new(&b.trans, &b.types, &b.leaps, &b.rule) {
        Ok(tz) => tz,
        Err(e) => return Err(("zone accepted".into(), format!("Err({e:?})"))),
    };
    // the UTC instant that count tt denotes
    let ustar = o::g(&leaps, tt);
    // (a) forward lookup switches exactly there
    for (u, want) in [(ustar - 2, 0i128), (ustar - 1, 0), (ustar, 3600), (ustar + 1, 3600)] {
        match tz.find_local_time_type(u as i64) {
            Ok(lt) if lt.ut_offset() as i128 == want => {}
            Ok(lt) => return Err((format!("lookup({u}) offset {want} (transition takes effect at {ustar})"), format!("offset {}", lt.ut_offset()))),
            Err(e) => return Err((format!("lookup({u}) offset {want}"), format!("Err({e:?})"))),
        }
    }
    // (b) UTC -> count -> UTC: every UTC instant around the table's records round-trips through the lookup of a
    //     second zone whose single transition is placed at its count  (covered by (a) for tt = f(u))
    // (c) the search reports the gap at that very instant
    let loc = ustar + 1800; // inside [ustar + 0, ustar + 3600)
    let f = o::fields(loc);
    let found = DateTime::find(f.0 as i32, f.1 as u8, f.2 as u8, f.3 as u8, f.4 as u8, f.5 as u8, 0, tz);
    match found {
        Ok(list) => {
            let v = list.into_inner();
            let skipped: Vec<_> = v.iter().filter_map(|k| match k { FoundDateTimeKind::Skipped { before_transition, after_transition } => Some((before_transition.unix_time() as i128, after_transition.unix_time() as i128)), _ => None }).collect();
            if skipped != vec![(ustar, ustar)] {
                return Err((format!("search reports the gap at {ustar}"), format!("{skipped:?} ({} entries)", v.len())));
            }
            Ok(())
        }
        Err(e) => Err(("search Ok".into(), format!("Err({e:?})"))),
    }
}


/// C12 (last sentence) through the public API with a leap table, explicit transitions and a trailing DST rule:
/// localtime followed by the search recovers the instant, around the table/rule junction
fn gen_c12_junction(rng: &mut Rng, n: usize, emit: &mut dyn FnMut(Vec<i128>) -> bool) {
    for round in 0..(n / 40 + 6) {
        let y = rng.pick(&[1973i128, 1990, 2000, 2016]);
        let leaps: Vec<(i128, i128)> = match round % 3 {
            0 => vec![(78796800, 1), (94694401, 2)],
            1 => vec![(78796800, 1), (94694401, 2), (126230402, 3)],
            _ => vec![(1000, 1)],
        };
        for k in -6i128..=8 {
            for which in 0..2i128 {
                let mut v = vec![y, which, k, leaps.len() as i128];
                for l in &leaps {
                    v.extend([l.0, l.1]);
                }
                if !emit(v) {
                    return;
                }
            }
        }
    }
}

fn eval_c12_junction(x: &[i128]) -> Result<(), Mismatch> {
    let (y, which, k) = (x[0], x[1], x[2]);
    let nl = x[3] as usize;
    let leaps: Vec<(i128, i128)> = (0..nl).map(|i| (x[4 + 2 * i], x[5 + 2 * i])).collect();
    let a = o::Alt { std_off: 0, dst_off: 3600, start: o::Day::M(3, 5, 0), start_time: 3600, end: o::Day::M(10, 5, 0), end_time: 7200 };
    let (s, e) = (a.s(y), a.e(y));
    // explicit transitions at the counts of this year's start and end instants; the rule takes over afterwards
    let b = Built {
        leaps: leaps.iter().map(|l| LeapSecond::new(l.0 as i64, l.1 as i32)).collect(),
        trans: vec![Transition::new(o::f(&leaps, s) as i64, 1), Transition::new(o::f(&leaps, e) as i64, 0)],
        types: vec![LocalTimeType::new(0, false, Some(b"STD")).unwrap(), LocalTimeType::new(3600, true, Some(b"DST")).unwrap()],
        rule: Some(TransitionRule::Alternate(real_alt(&a).unwrap().map_err(|e| ("rule accepted".to_string(), format!("{e:?}")))?)),
    };
    let tz = TimeZoneRef::new(&b.trans, &b.types, &b.leaps, &b.rule).map_err(|e| ("zone accepted".to_string(), format!("Err({e:?})")))?;
    let u = if which == 0 { s } else { e } + k;
    let want_dst = a.in_dst(u);
    let dt = DateTime::from_timespec(u as i64, 0, tz).map_err(|e| ("lookup Ok".to_string(), format!("Err({e:?})")))?;
    if dt.local_time_type().is_dst() != want_dst {
        return Err((format!("lookup({u}) is_dst={want_dst}"), format!("is_dst={}", dt.local_time_type().is_dst())));
    }
    let list = DateTime::find(dt.year(), dt.month(), dt.month_day(), dt.hour(), dt.minute(), dt.second(), 0, tz).map_err(|e| ("search Ok".to_string(), format!("Err({e:?})")))?;
    let v = list.into_inner();
    let normals: Vec<(i128, bool)> = v.iter().filter_map(|k| match k { FoundDateTimeKind::Normal(d) => Some((d.unix_time() as i128, d.local_time_type().is_dst())), _ => None }).collect();
    if !normals.contains(&(u, want_dst)) {
        return Err((format!("search for the local time of {u} returns {u} (is_dst={want_dst})"), format!("{normals:?}")));
    }
    // and every returned instant really shows that local time
    for (t, _) in &normals {
        let back = DateTime::from_timespec(*t as i64, 0, tz).map_err(|e| ("lookup Ok".to_string(), format!("Err({e:?})")))?;
        if dt_fields(&back) != dt_fields(&dt) {
            return Err((format!("returned instant {t} shows {:?}", dt_fields(&dt)), format!("{:?}", dt_fields(&back))));
        }
    }
    Ok(())
}

fn gen_c13(rng: &mut Rng, n: usize, emit: &mut dyn FnMut(Vec<i128>) -> bool) {
    for round in 0..(n / 2 + 200) {
        // start from a valid zone, then apply at most one defect
        let ny = rng.range(1, 3) as usize;
        let offs: Vec<i128> = (0..ny).map(|i| (i as i128) * 1800 + rng.pick(&[0i128, 1])).collect();
        let nt = rng.range(0, 4) as usize;
        let mut t = rng.pick(&[i64::MIN as i128, -5, 0, 1_000_000, i64::MAX as i128 - 3]);
        let mut trans = Vec::new();
        for _ in 0..nt {
            if t > i64::MAX as i128 {
                break;
            }
            trans.push((t, rng.range(0, ny as i128 - 1)));
            t += rng.pick(&[1i128, 2, 86400]);
        }
        let leaps = random_leaps(rng, true);
        let fixed_rule = if rng.next() % 2 == 0 && !trans.is_empty() { Some(offs[trans.last().unwrap().1 as usize]) } else if rng.next() % 4 == 0 { Some(offs[0]) } else { None };
        let mut z = ZoneSpec { leaps, trans, offs, fixed_rule, rule_name: 0 };
        match round % 14 {
            1 => z.offs.clear(),
            2 if !z.trans.is_empty() => { let k = rng.range(0, z.trans.len() as i128 - 1) as usize; z.trans[k].1 = z.offs.len() as i128 + rng.pick(&[0i128, 1]); }
            3 if z.trans.len() > 1 => { let k = rng.range(1, z.trans.len() as i128 - 1) as usize; z.trans[k].0 = z.trans[k - 1].0 - rng.pick(&[0i128, 1]); }
            4 if !z.leaps.is_empty() => z.leaps[0].1 = rng.pick(&[0i128, 2, -2]),
            5 if !z.leaps.is_empty() => z.leaps[0].0 = -1,
            6 if z.leaps.len() > 1 => { let k = rng.range(1, z.leaps.len() as i128 - 1) as usize; z.leaps[k].0 = z.leaps[k - 1].0 + 2419198; }
            7 if z.leaps.len() > 1 => { let k = rng.range(1, z.leaps.len() as i128 - 1) as usize; z.leaps[k].1 = z.leaps[k - 1].1 + rng.pick(&[0i128, 2, -2]); }
            8 if z.fixed_rule.is_some() => z.fixed_rule = Some(z.fixed_rule.unwrap() + 1),
            11 if z.fixed_rule.is_some() => z.rule_name = rng.range(1, 4),
            12 if z.leaps.len() > 1 => { let k = rng.range(1, z.leaps.len() as i128 - 1) as usize; z.leaps[k].0 = rng.pick(&[i64::MIN as i128, i64::MIN as i128 + 5, -1]); }
            9 if !z.leaps.is_empty() => z.leaps[0] = (i64::MAX as i128, 1),
            10 if z.leaps.len() > 1 => { z.leaps[0].1 = i32::MIN as i128 + 1; z.leaps[1].1 = i32::MAX as i128; }
            _ => {}
        }
        if z.trans.iter().any(|t| t.0 < i64::MIN as i128 || t.0 > i64::MAX as i128 || t.1 < 0) || z.leaps.iter().any(|l| l.0 > i64::MAX as i128 || l.1.abs() > i32::MAX as i128) {
            continue;
        }
        if !emit(encode_zone(&z)) {
            return;
        }
    }
}

fn eval_c13(x: &[i128]) -> Result<(), Mismatch> {
    let (z, _) = decode_zone(x);
    let b = build(&z);
    let exp = oracle_zone_wf(&z);
    let r = TimeZoneRef::new(&b.trans, &b.types, &b.leaps, &b.rule);
    let act = match &r {
        Ok(_) => "Ok".to_string(),
        Err(TzError::TimeZone(e)) => format!("{e:?}"),
        Err(e) => format!("{e:?}"),
    };
    let exps = match exp {
        Ok(()) => "Ok".to_string(),
        Err(e) => e.to_string(),
    };
    // the owned constructor decides identically
    let owned = TimeZone::new(b.trans.clone(), b.types.clone(), b.leaps.clone(), b.rule);
    let act_owned = match &owned {
        Ok(_) => "Ok".to_string(),
        Err(TzError::TimeZone(e)) => format!("{e:?}"),
        Err(e) => format!("{e:?}"),
    };
    if act != exps || act_owned != exps {
        return Err((exps, format!("borrowed={act} owned={act_owned}")));
    }
    Ok(())
}


/// C14 for the values built inside the local-time search (BOUNDED: the zones and local times generated here):
/// every entry returned by DateTime::find satisfies secs(fields) = unix_time + ut_offset, Normal entries carry the
/// searched fields, both halves of a Skipped entry denote the same instant
fn gen_c14_search(rng: &mut Rng, n: usize, emit: &mut dyn FnMut(Vec<i128>) -> bool) {
    for round in 0..(n / 16 + 30) {
        let nt = rng.range(1, 4) as usize;
        let ny = rng.range(1, 3) as usize;
        let offs: Vec<i128> = (0..ny).map(|i| (i as i128) * 3600 + rng.pick(&[0i128, 1800, -7200])).collect();
        let rt = rng.range(0, 2_000_000_000);
        let mut t = rng.pick(&[1_000_000_002i128, 100_000, 946_684_800, rt]);
        let mut trans = Vec::new();
        for _ in 0..nt {
            trans.push((t, rng.range(0, ny as i128 - 1)));
            t += rng.pick(&[1800i128, 3600, 86400, 15_000_000, 1_000_000_000]);
        }
        let leaps = match round % 3 {
            0 => vec![],
            1 => vec![(78796800, 1), (94694401, 2)],
            _ => random_leaps(rng, true),
        };
        let fixed_rule = if round % 2 == 0 { Some(offs[trans.last().unwrap().1 as usize]) } else { None };
        let z = ZoneSpec { leaps, trans, offs, fixed_rule, rule_name: 0 };
        if oracle_zone_wf(&z).is_err() {
            continue;
        }
        let mut locals = vec![rng.range(0, 2_100_000_000)];
        for tr in &z.trans {
            let u = o::g(&z.leaps, tr.0);
            for off in &z.offs {
                locals.extend([u + off - 1, u + off, u + off + 1, u + off + 1799]);
            }
        }
        for l in locals {
            let mut v = vec![l];
            v.extend(encode_zone(&z));
            if !emit(v) {
                return;
            }
        }
    }
}

fn eval_c14_search(x: &[i128]) -> Result<(), Mismatch> {
    let local = x[0];
    let (z, _) = decode_zone(&x[1..]);
    let b = build(&z);
    let tz = match TimeZoneRef::new(&b.trans, &b.types, &b.leaps, &b.rule) {
        Ok(tz) => tz,
        Err(_) => return Ok(()),
    };
    let f = o::fields(local);
    let list = match DateTime::find(f.0 as i32, f.1 as u8, f.2 as u8, f.3 as u8, f.4 as u8, f.5 as u8, 7, tz) {
        Ok(l) => l.into_inner(),
        Err(_) => return Ok(()),
    };
    let inv = |dt: &DateTime| -> Result<(), Mismatch> {
        let fl = dt_fields(dt);
        let want = o::secs(fl.0, fl.1, fl.2, fl.3, fl.4, fl.5);
        let have = dt.unix_time() as i128 + dt.local_time_type().ut_offset() as i128;
        if want != have || dt.nanoseconds() != 7 {
            return Err((format!("secs(fields {:?}) = unix_time + offset = {have}, ns=7", fl), format!("secs(fields) = {want}, unix_time={} offset={} ns={}", dt.unix_time(), dt.local_time_type().ut_offset(), dt.nanoseconds())));
        }
        Ok(())
    };
    for k in &list {
        match k {
            FoundDateTimeKind::Normal(dt) => {
                inv(dt)?;
                if dt_fields(dt) != f {
                    return Err((format!("Normal entry carries the searched fields {:?}", f), format!("{:?}", dt_fields(dt))));
                }
            }
            FoundDateTimeKind::Skipped { before_transition, after_transition } => {
                inv(before_transition)?;
                inv(after_transition)?;
                if before_transition.unix_time() != after_transition.unix_time() {
                    return Err(("both halves of a gap entry denote the transition instant".into(), format!("{} vs {}", before_transition.unix_time(), after_transition.unix_time())));
                }
            }
        }
    }
    Ok(())
}


/// C17 through the public API (BOUNDED: generated zones / local times, buffer lengths 0..=k+2 with stale contents)
fn same_dt_full(a: &DateTime, b: &DateTime) -> bool {
    dt_fields(a) == dt_fields(b) && a.unix_time() == b.unix_time() && a.nanoseconds() == b.nanoseconds() && a.local_time_type() == b.local_time_type()
}

fn same_kind_full(a: &FoundDateTimeKind, b: &FoundDateTimeKind) -> bool {
    match (a, b) {
        (FoundDateTimeKind::Normal(x), FoundDateTimeKind::Normal(y)) => same_dt_full(x, y),
        (FoundDateTimeKind::Skipped { before_transition: a1, after_transition: a2 }, FoundDateTimeKind::Skipped { before_transition: b1, after_transition: b2 }) => same_dt_full(a1, b1) && same_dt_full(a2, b2),
        _ => false,
    }
}

fn same_opt_full(a: &Option<DateTime>, b: &Option<DateTime>) -> bool {
    match (a, b) {
        (Some(x), Some(y)) => same_dt_full(x, y),
        (None, None) => true,
        _ => false,
    }
}

fn eval_c17(x: &[i128]) -> Result<(), Mismatch> {
    let local = x[0];
    let (z, _) = decode_zone(&x[1..]);
    let b = build(&z);
    let tz = match TimeZoneRef::new(&b.trans, &b.types, &b.leaps, &b.rule) {
        Ok(tz) => tz,
        Err(_) => return Ok(()),
    };
    let f = o::fields(local);
    let args = (f.0 as i32, f.1 as u8, f.2 as u8, f.3 as u8, f.4 as u8, f.5 as u8);
    let alloc = DateTime::find(args.0, args.1, args.2, args.3, args.4, args.5, 3, tz);
    // stale entries from an unrelated earlier search
    let stale = FoundDateTimeKind::Normal(DateTime::from_timespec_and_local(12345, 6, LocalTimeType::utc()).unwrap());
    let k = match &alloc { Ok(l) => l.clone().into_inner().len(), Err(_) => 0 };
    for n in 0..=k + 2 {
        let mut buf = vec![Some(stale); n];
        let r = DateTime::find_n(&mut buf, args.0, args.1, args.2, args.3, args.4, args.5, 3, tz);
        match (&alloc, r) {
            (Err(e1), Err(e2)) => {
                if format!("{e1:?}") != format!("{e2:?}") {
                    return Err((format!("Err({e1:?})"), format!("Err({e2:?})")));
                }
            }
            (Ok(list), Ok(lr)) => {
                let v = list.clone().into_inner();
                let want = n.min(k);
                if lr.count() != k || lr.is_exhaustive() != (n >= k) || lr.data().len() != want {
                    return Err((format!("n={n}: count={k} exhaustive={} written={want}", n >= k), format!("count={} exhaustive={} written={}", lr.count(), lr.is_exhaustive(), lr.data().len())));
                }
                for i in 0..want {
                    match &lr.data()[i] {
                        Some(e) if same_kind_full(e, &v[i]) => {}
                        other => return Err((format!("n={n}: slot {i} = result {i}"), format!("{other:?}"))),
                    }
                }
                if n >= k && !(same_opt_full(&lr.unique(), &list.unique()) && same_opt_full(&lr.earliest(), &list.earliest()) && same_opt_full(&lr.latest(), &list.latest())) {
                    return Err((format!("n={n}: unique/earliest/latest as the allocating search"), "different".into()));
                }
                drop(lr);
                for i in want..n {
                    match &buf[i] {
                        Some(e) if same_kind_full(e, &stale) => {}
                        other => return Err((format!("n={n}: slot {i} beyond the reported ones untouched"), format!("{other:?}"))),
                    }
                }
            }
            (a, r) => return Err((format!("same outcome as the allocating search ({})", if a.is_ok() { "Ok" } else { "Err" }), (if r.is_ok() { "Ok" } else { "Err" }).to_string())),
        }
    }
    Ok(())
}


/// C13, trailing rule of the alternate (DST) kind with a leap table: the zone is accepted exactly when the rule
/// prescribes, at the UTC instant of the last transition, the last transition's type
fn gen_c13_alt(rng: &mut Rng, n: usize, emit: &mut dyn FnMut(Vec<i128>) -> bool) {
    for round in 0..(n / 60 + 4) {
        let y = rng.pick(&[1973i128, 1990, 2021, 2030]);
        let leaps: Vec<(i128, i128)> = match round % 4 {
            0 => vec![(78796800, 1)],
            1 => vec![(78796800, 1), (94694401, 2), (126230402, 3)],
            2 => vec![(1000, -1)],
            _ => vec![],
        };
        for k in -4i128..=4 {
            for which in 0..4i128 {
                let mut v = vec![y, which, k, leaps.len() as i128];
                for l in &leaps {
                    v.extend([l.0, l.1]);
                }
                if !emit(v) {
                    return;
                }
            }
        }
    }
}

fn eval_c13_alt(x: &[i128]) -> Result<(), Mismatch> {
    let (y, which, k) = (x[0], x[1], x[2]);
    let nl = x[3] as usize;
    let leaps: Vec<(i128, i128)> = (0..nl).map(|i| (x[4 + 2 * i], x[5 + 2 * i])).collect();
    let a = o::Alt { std_off: 3600, dst_off: 7200, start: o::Day::M(3, 5, 0), start_time: 7200, end: o::Day::M(10, 5, 0), end_time: 10800 };
    // last transition near this year's DST start (which = 0, 1) or end (2, 3), going to STD (even) or DST (odd)
    let near = if which < 2 { a.s(y) } else { a.e(y) };
    let t_last = o::f(&leaps, near) + k;
    let to_dst = which % 2 == 1;
    let b = Built {
        leaps: leaps.iter().map(|l| LeapSecond::new(l.0 as i64, l.1 as i32)).collect(),
        trans: vec![Transition::new((t_last - 10_000_000) as i64, 0), Transition::new(t_last as i64, if to_dst { 1 } else { 0 })],
        types: vec![LocalTimeType::new(3600, false, Some(b"STD")).unwrap(), LocalTimeType::new(7200, true, Some(b"DST")).unwrap()],
        rule: Some(TransitionRule::Alternate(real_alt(&a).unwrap().map_err(|e| ("rule accepted".to_string(), format!("{e:?}")))?)),
    };
    let u = o::g(&leaps, t_last);
    let exp = if a.in_dst(u) == to_dst { "Ok" } else { "InconsistentExtraRule" };
    let show = |r: Result<(), TzError>| match r {
        Ok(()) => "Ok".to_string(),
        Err(TzError::TimeZone(e)) => format!("{e:?}"),
        Err(e) => format!("{e:?}"),
    };
    let act = show(TimeZoneRef::new(&b.trans, &b.types, &b.leaps, &b.rule).map(|_| ()));
    let act_owned = show(TimeZone::new(b.trans.clone(), b.types.clone(), b.leaps.clone(), b.rule).map(|_| ()));
    if act != exp || act_owned != exp {
        return Err((format!("{exp} (rule prescribes is_dst={} at UTC {u}, last transition goes to is_dst={to_dst})", a.in_dst(u)), format!("borrowed={act} owned={act_owned}")));
    }
    Ok(())
}

// ---------------------------------------------------------------------------------------------- rules (C04, C11)

fn enc_day(d: o::Day) -> [i128; 4] {
    match d {
        o::Day::J1(n) => [0, n, 0, 0],
        o::Day::J0(n) => [1, n, 0, 0],
        o::Day::M(m, w, wd) => [2, m, w, wd],
    }
}

fn dec_day(x: &[i128]) -> o::Day {
    match x[0] {
        0 => o::Day::J1(x[1]),
        1 => o::Day::J0(x[1]),
        _ => o::Day::M(x[1], x[2], x[3]),
    }
}

fn real_day(d: o::Day) -> Option<RuleDay> {
    Some(match d {
        o::Day::J1(n) => RuleDay::Julian1WithoutLeap(Julian1WithoutLeap::new(n as u16).ok()?),
        o::Day::J0(n) => RuleDay::Julian0WithLeap(Julian0WithLeap::new(n as u16).ok()?),
        o::Day::M(m, w, wd) => RuleDay::MonthWeekDay(MonthWeekDay::new(m as u8, w as u8, wd as u8).ok()?),
    })
}

fn random_day(rng: &mut Rng) -> o::Day {
    let rr1 = rng.range(1, 365);
    let rr2 = rng.range(0, 365);
    match rng.next() % 4 {
        0 => o::Day::J1(rng.pick(&[1i128, 59, 60, 61, 274, 300, 365, rr1])),
        1 => o::Day::J0(rng.pick(&[0i128, 58, 59, 60, 273, 364, 365, rr2])),
        _ => o::Day::M(rng.range(1, 12), rng.range(1, 5), rng.range(0, 6)),
    }
}

fn dec_alt(x: &[i128]) -> o::Alt {
    o::Alt { std_off: x[0], dst_off: x[1], start: dec_day(&x[2..6]), start_time: x[6], end: dec_day(&x[7..11]), end_time: x[11] }
}

fn enc_alt(a: &o::Alt) -> Vec<i128> {
    let mut v = vec![a.std_off, a.dst_off];
    v.extend(enc_day(a.start));
    v.push(a.start_time);
    v.extend(enc_day(a.end));
    v.push(a.end_time);
    v
}

fn real_alt(a: &o::Alt) -> Option<Result<AlternateTime, tz::error::timezone::TransitionRuleError>> {
    let std = LocalTimeType::new(a.std_off as i32, false, Some(b"STD")).ok()?;
    let dst = LocalTimeType::new(a.dst_off as i32, true, Some(b"DST")).ok()?;
    Some(AlternateTime::new(std, dst, real_day(a.start)?, a.start_time as i32, real_day(a.end)?, a.end_time as i32))
}

fn random_alt(rng: &mut Rng, round: usize) -> o::Alt {
    let start = random_day(rng);
    let mut end = random_day(rng);
    if round % 3 == 0 {
        // nearby days: the interesting region for order flips
        end = match start {
            o::Day::M(m, w, _) => if rng.next() % 2 == 0 { o::Day::M(if rng.next() % 3 == 0 { m % 12 + 1 } else { m }, rng.pick(&[w, (w % 5) + 1, 5, 1]), rng.range(0, 6)) } else { o::Day::J1((o::cum(m, false) + 7 * (w - 1) + rng.range(1, 8)).clamp(1, 365)) },
            o::Day::J1(n) => o::Day::J0((n + rng.range(-2, 2)).clamp(0, 365)),
            o::Day::J0(n) => o::Day::J1((n + rng.range(-1, 3)).clamp(1, 365)),
        };
    }
    let rr3 = rng.range(-89999, 93599);
    let std_off = rng.pick(&[0i128, 3600, -18000, 93599, -89999, rr3]);
    let dst_off = std_off + rng.pick(&[3600i128, 0, -3600, 1800]);
    let dst_off = dst_off.clamp(-89999, 93599);
    let day = 86400i128;
    let k = rng.range(-6, 6);
    let rr4 = rng.range(-604799, 604799);
    let start_time = rng.pick(&[7200i128, 0, k * day, k * day + 1, k * day - 1, rr4]).clamp(-604799, 604799);
    // make the end time line up with the start time in UTC (plus a whole number of days +-1 s) half of the time
    let rr5 = rng.range(-604799, 604799);
    let end_time = if rng.next() % 2 == 0 { (start_time - std_off + dst_off + rng.range(-7, 7) * day + rng.pick(&[-1i128, 0, 1])).clamp(-604799, 604799) } else { rng.pick(&[7200i128, 10800, 0, rr5]) };
    o::Alt { std_off, dst_off, start, start_time, end, end_time }
}

/// rule whose start/end days are close to each other and whose UTC day times differ by k days -1/0/+1 s: the decision
/// breakpoints of the constructor (C11's quantifier text)
fn structured_alt(rng: &mut Rng) -> Option<o::Alt> {
    let m = rng.range(1, 12);
    let start = o::Day::M(m, rng.range(1, 5), rng.range(0, 6));
    let end = match rng.next() % 4 {
        0 => o::Day::M(m, rng.range(1, 5), rng.range(0, 6)),
        1 => o::Day::M(m % 12 + 1, rng.range(1, 5), rng.range(0, 6)),
        2 => o::Day::J1((o::cum(m, false) + rng.range(-6, 37)).clamp(1, 365)),
        _ => o::Day::J0((o::cum(m, false) + rng.range(-7, 36)).clamp(0, 365)),
    };
    let (start, end) = if rng.next() % 2 == 0 { (start, end) } else { (end, start) };
    let std_off = rng.pick(&[0i128, 3600, -89999, 93599, -18000]);
    let dst_off = rng.pick(&[std_off + 3600, 93599, -89999, std_off]).clamp(-89999, 93599);
    let k = rng.range(-23, 23);
    let d = k * 86400 + rng.pick(&[-1i128, 0, 1]);
    let rst = rng.range(-604799, 604799);
    let start_time = rng.pick(&[0i128, 7200, 604799, -604799, rst]);
    // d = (start_time - std_off) - (end_time - dst_off)
    let end_time = start_time - std_off + dst_off - d;
    if end_time.abs() >= 604800 {
        return None;
    }
    Some(o::Alt { std_off, dst_off, start, start_time, end, end_time })
}

fn gen_c11(rng: &mut Rng, n: usize, emit: &mut dyn FnMut(Vec<i128>) -> bool) {
    for round in 0..n {
        let mut a = random_alt(rng, round);
        if round % 3 != 0 {
            if let Some(b) = structured_alt(rng) {
                a = b;
            }
        }
        match round % 40 {
            1 => a.std_off = rng.pick(&[93600i128, -90000]),
            2 => a.dst_off = rng.pick(&[93600i128, -90000]),
            3 => a.start_time = rng.pick(&[604800i128, -604800, i32::MIN as i128, i32::MAX as i128, i32::MIN as i128 + 1]),
            4 => a.end_time = rng.pick(&[604800i128, -604800, i32::MIN as i128, i32::MAX as i128, i32::MIN as i128 + 1]),
            5 => a.std_off = rng.pick(&[i32::MAX as i128, i32::MIN as i128 + 1, -89999, 93599]),
            6 => a.dst_off = rng.pick(&[i32::MAX as i128, i32::MIN as i128 + 1, -89999, 93599]),
            _ => {}
        }
        if !emit(enc_alt(&a)) {
            return;
        }
    }
}

fn eval_c11(x: &[i128]) -> Result<(), Mismatch> {
    let a = dec_alt(x);
    let r = match real_alt(&a) {
        Some(r) => r,
        None => return Ok(()),
    };
    use tz::error::timezone::TransitionRuleError as E;
    let exp = if !(-90000 < a.std_off && a.std_off < 93600) {
        "InvalidStdUtcOffset"
    } else if !(-90000 < a.dst_off && a.dst_off < 93600) {
        "InvalidDstUtcOffset"
    } else if !(a.start_time.abs() < 604800 && a.end_time.abs() < 604800) {
        "InvalidDstStartEndTime"
    } else if !a.order_stable() {
        "InconsistentRule"
    } else {
        "Ok"
    };
    let act = match &r {
        Ok(_) => "Ok",
        Err(E::InvalidStdUtcOffset) => "InvalidStdUtcOffset",
        Err(E::InvalidDstUtcOffset) => "InvalidDstUtcOffset",
        Err(E::InvalidDstStartEndTime) => "InvalidDstStartEndTime",
        Err(E::InconsistentRule) => "InconsistentRule",
        Err(_) => "other",
    };
    if exp != act {
        return Err((exp.into(), act.into()));
    }
    Ok(())
}

fn gen_c04(rng: &mut Rng, n: usize, emit: &mut dyn FnMut(Vec<i128>) -> bool) {
    // the recorded witness of known finding F2 first, then random accepted rules
    let mut round = 0;
    let mut produced = 0;
    while produced < n && round < n * 30 {
        round += 1;
        let a = random_alt(rng, round);
        if !a.ranges_ok() || !a.order_stable() {
            continue;
        }
        let rr6 = rng.range(-3000, 5000);
        let y = rng.pick(&[1970i128, 1999, 2000, 2017, 2023, 2024, 2100, -1, 0, 1, rr6, i32::MAX as i128 - 2, i32::MIN as i128 + 2, i32::MAX as i128 - 1, i32::MIN as i128 + 1]);
        let mut us = vec![o::dby(y) * 86400 - 1, o::dby(y) * 86400, o::dby(y + 1) * 86400 - 1, o::dby(y) * 86400 + rng.range(0, 366 * 86400)];
        for yy in [y - 1, y, y + 1] {
            for v in [a.s(yy), a.e(yy)] {
                us.extend([v - 1, v, v + 1]);
            }
        }
        for u in us {
            if (i64::MIN as i128..=i64::MAX as i128).contains(&u) {
                let mut v = enc_alt(&a);
                v.push(u);
                produced += 1;
                if !emit(v) {
                    return;
                }
            }
        }
    }
}

fn eval_c04_inner(x: &[i128], include_defect_class: bool) -> Result<(), Mismatch> {
    let a = dec_alt(x);
    let u = x[12];
    let alt = match real_alt(&a) {
        Some(Ok(alt)) => alt,
        _ => return Ok(()),
    };
    if !a.order_stable() {
        return Ok(());
    }
    let types = [*alt.std(), *alt.dst()];
    let rule = Some(TransitionRule::Alternate(alt));
    let tz = match TimeZoneRef::new(&[], &types, &[], &rule) {
        Ok(tz) => tz,
        Err(e) => return Err(("zone accepted".into(), format!("Err({e:?})"))),
    };
    let r = tz.find_local_time_type(u as i64);
    let in_range = o::dby(-2147483646) * 86400 <= u && u < o::dby(2147483646) * 86400;
    if !in_range {
        return match r {
            Err(TzError::OutOfRange) => Ok(()),
            Ok(lt) => Err(("Err(OutOfRange)".into(), format!("Ok(is_dst={})", lt.is_dst()))),
            Err(e) => Err(("Err(OutOfRange)".into(), format!("Err({e:?})"))),
        };
    }
    if a.defect_class(u) && !include_defect_class {
        return Ok(());
    }
    let want = a.in_dst(u);
    match r {
        Ok(lt) => {
            let exp_off = if want { a.dst_off } else { a.std_off };
            if lt.is_dst() != want || lt.ut_offset() as i128 != exp_off || lt.time_zone_designation() != if want { "DST" } else { "STD" } {
                return Err((format!("is_dst={want} offset={exp_off}"), format!("is_dst={} offset={} name={}", lt.is_dst(), lt.ut_offset(), lt.time_zone_designation())));
            }
            Ok(())
        }
        Err(e) => Err((format!("is_dst={want}"), format!("Err({e:?})"))),
    }
}

fn eval_c04(x: &[i128]) -> Result<(), Mismatch> {
    eval_c04_inner(x, false)
}

/// same evaluation without the carve-out: used to replay the witness of known finding F2
fn eval_c04_full(x: &[i128]) -> Result<(), Mismatch> {
    eval_c04_inner(x, true)
}


// ---------------------------------------------------------------------------------------------- C05 / C06 (bounded, public API)

/// type (offset) in force at UTC instant u for a table zone with optional fixed rule, per the oracle; None = no type
fn oracle_type_at(z: &ZoneSpec, u: i128) -> Option<i128> {
    let t = o::f(&z.leaps, u);
    if z.trans.is_empty() {
        return Some(z.fixed_rule.unwrap_or(z.offs[0]));
    }
    if t >= z.trans.last().unwrap().0 {
        return z.fixed_rule;
    }
    match z.trans.iter().rev().find(|tr| tr.0 <= t) {
        Some(tr) => Some(z.offs[tr.1 as usize]),
        None => Some(z.offs[0]),
    }
}

/// expected result of the search for local second count `local` in a table zone: (Normal instants with offset, gaps (instant, a, b))
fn oracle_search_table(z: &ZoneSpec, local: i128) -> (Vec<(i128, i128)>, Vec<(i128, i128, i128)>) {
    let mut offs: Vec<i128> = z.offs.clone();
    if let Some(r) = z.fixed_rule {
        offs.push(r);
    }
    offs.sort();
    offs.dedup();
    let mut normals = Vec::new();
    for &off in &offs {
        let u = local - off;
        if oracle_type_at(z, u) == Some(off) {
            normals.push((u, off));
        }
    }
    normals.sort();
    let mut gaps = Vec::new();
    for (i, tr) in z.trans.iter().enumerate() {
        if i + 1 == z.trans.len() && z.fixed_rule.is_none() {
            continue;
        }
        let a = if i == 0 { z.offs[0] } else { z.offs[z.trans[i - 1].1 as usize] };
        let b = z.offs[tr.1 as usize];
        let u = o::g(&z.leaps, tr.0);
        if u + a <= local && local < u + b {
            gaps.push((u, a, b));
        }
    }
    (normals, gaps)
}

fn eval_c05_table(x: &[i128]) -> Result<(), Mismatch> {
    let local = x[0];
    let (z, _) = decode_zone(&x[1..]);
    if oracle_zone_wf(&z).is_err() || z.trans.is_empty() {
        return Ok(());
    }
    // zones in which a negative leap second deletes a UTC value next to a transition are left to C12
    let b = build(&z);
    let tz = match TimeZoneRef::new(&b.trans, &b.types, &b.leaps, &b.rule) {
        Ok(tz) => tz,
        Err(_) => return Ok(()),
    };
    let f = o::fields(local);
    let list = match DateTime::find(f.0 as i32, f.1 as u8, f.2 as u8, f.3 as u8, f.4 as u8, f.5 as u8, 0, tz) {
        Ok(l) => l,
        Err(_) => return Ok(()),
    };
    let (exp_n, exp_g) = oracle_search_table(&z, local);
    let v = list.clone().into_inner();
    let act_n: Vec<(i128, i128)> = v.iter().filter_map(|k| match k { FoundDateTimeKind::Normal(d) => Some((d.unix_time() as i128, d.local_time_type().ut_offset() as i128)), _ => None }).collect();
    let act_g: Vec<(i128, i128, i128)> = v.iter().filter_map(|k| match k { FoundDateTimeKind::Skipped { before_transition, after_transition } => Some((before_transition.unix_time() as i128, before_transition.local_time_type().ut_offset() as i128, after_transition.local_time_type().ut_offset() as i128)), _ => None }).collect();
    if act_n != exp_n {
        return Err((format!("valid results {exp_n:?}"), format!("{act_n:?}")));
    }
    let mut eg = exp_g.clone();
    eg.sort();
    let mut ag = act_g.clone();
    ag.sort();
    if ag != eg {
        return Err((format!("gaps {eg:?}"), format!("{ag:?}")));
    }
    // ascending order of instants over all entries
    let inst: Vec<i128> = v.iter().map(|k| match k { FoundDateTimeKind::Normal(d) => d.unix_time() as i128, FoundDateTimeKind::Skipped { before_transition, .. } => before_transition.unix_time() as i128 }).collect();
    if inst.windows(2).any(|w| w[0] > w[1]) {
        return Err(("results in ascending order of instant".into(), format!("{inst:?}")));
    }
    let uniq = list.unique().map(|d| d.unix_time() as i128);
    let exp_uniq = if exp_n.len() == 1 && exp_g.is_empty() { Some(exp_n[0].0) } else { None };
    if uniq != exp_uniq {
        return Err((format!("unique = {exp_uniq:?}"), format!("{uniq:?}")));
    }
    Ok(())
}

fn gen_c05_rule(rng: &mut Rng, n: usize, emit: &mut dyn FnMut(Vec<i128>) -> bool) {
    // permanent daylight time (end of year y = start of year y + 1), as in the tz database documentation
    let perm = o::Alt { std_off: -18000, dst_off: -14400, start: o::Day::J0(0), start_time: 0, end: o::Day::J1(365), end_time: 90000 };
    for y in [2000i128, 2021, 2024] {
        for dl in [-3600i128, -1, 0, 1800, 3600, 86400 * 100] {
            let mut e = enc_alt(&perm);
            e.push(perm.s(y) + perm.dst_off + dl);
            if !emit(e) {
                return;
            }
        }
    }
    let mut round = 0;
    let mut produced = 0;
    while produced < n && round < n * 30 {
        round += 1;
        let a = random_alt(rng, round);
        if !a.ranges_ok() || !a.order_stable() {
            continue;
        }
        let y = rng.pick(&[1999i128, 2000, 2017, 2023, 2024, 2100]);
        for yy in [y, y + 1] {
            for v in [a.s(yy), a.e(yy)] {
                for off in [a.std_off, a.dst_off] {
                    for dl in [-1i128, 0, 1, 1800] {
                        let mut e = enc_alt(&a);
                        e.push(v + off + dl);
                        produced += 1;
                        if !emit(e) {
                            return;
                        }
                    }
                }
            }
        }
    }
}

/// rule-only zone: valid results are the candidates L - std, L - dst whose clock shows L; gaps at forward switches
fn eval_c05_rule(x: &[i128]) -> Result<(), Mismatch> {
    eval_c05_rule_inner(x, false)
}

/// same without the carve-out for non-interleaving rules: replays the witness of known finding F3
fn eval_c05_rule_full(x: &[i128]) -> Result<(), Mismatch> {
    eval_c05_rule_inner(x, true)
}

fn eval_c05_rule_inner(x: &[i128], include_non_interleaving: bool) -> Result<(), Mismatch> {
    let a = dec_alt(x);
    let local = x[12];
    let alt = match real_alt(&a) {
        Some(Ok(alt)) => alt,
        _ => return Ok(()),
    };
    if !a.order_stable() {
        return Ok(());
    }
    // C04 defines the clock of a DST rule only for rules whose start/end instants interleave; accepted rules outside that
    // class (e.g. an end instant that falls before the previous year's start) are known finding F3's territory
    if !a.interleaving() && !include_non_interleaving {
        return Ok(());
    }
    let types = [*alt.std(), *alt.dst()];
    let rule = Some(TransitionRule::Alternate(alt));
    let tz = match TimeZoneRef::new(&[], &types, &[], &rule) {
        Ok(tz) => tz,
        Err(_) => return Ok(()),
    };
    let f = o::fields(local);
    let cy = f.0;
    // known findings: F2 (end-first rule in a year where start = end: the evaluator misreads the whole year) - such inputs
    // are skipped; F4 (a zero-length segment, start instant = end instant, is reported as a gap, e.g. permanent DST) - near
    // such coincidences only the valid results are compared, not the gap entries
    let mut skip_gaps = false;
    if !include_non_interleaving {
        for yy in cy - 2..=cy + 2 {
            if !a.start_first() && a.s(yy) == a.e(yy) {
                return Ok(());
            }
            if a.s(yy) == a.e(yy) || a.e(yy) == a.s(yy + 1) || a.s(yy) == a.e(yy + 1) {
                skip_gaps = true;
            }
        }
    }
    let list = match DateTime::find(f.0 as i32, f.1 as u8, f.2 as u8, f.3 as u8, f.4 as u8, f.5 as u8, 0, tz) {
        Ok(l) => l.into_inner(),
        Err(_) => return Ok(()),
    };
    let mut exp_n: Vec<(i128, bool)> = Vec::new();
    for (off, dst) in [(a.std_off, false), (a.dst_off, true)] {
        let u = local - off;
        if a.in_dst(u) == dst {
            exp_n.push((u, dst));
        }
    }
    exp_n.sort();
    exp_n.dedup();
    let mut act_n: Vec<(i128, bool)> = list.iter().filter_map(|k| match k { FoundDateTimeKind::Normal(d) => Some((d.unix_time() as i128, d.local_time_type().is_dst())), _ => None }).collect();
    let ordered = act_n.windows(2).all(|w| w[0].0 <= w[1].0);
    act_n.sort();
    if act_n != exp_n || !ordered {
        return Err((format!("valid results {exp_n:?} in ascending order"), format!("{act_n:?} ordered={ordered}")));
    }
    if skip_gaps {
        return Ok(());
    }
    // gaps: a switch at instant T from offset p to a larger offset q with T + p <= local < T + q, only where the type really changes
    let mut exp_g: Vec<i128> = Vec::new();
    for yy in cy - 2..=cy + 2 {
        for (t, p, q) in [(a.s(yy), a.std_off, a.dst_off), (a.e(yy), a.dst_off, a.std_off)] {
            let changes = a.in_dst(t - 1) != a.in_dst(t);
            if changes && t + p <= local && local < t + q {
                exp_g.push(t);
            }
        }
    }
    exp_g.sort();
    exp_g.dedup();
    let mut act_g: Vec<i128> = list.iter().filter_map(|k| match k { FoundDateTimeKind::Skipped { before_transition, .. } => Some(before_transition.unix_time() as i128), _ => None }).collect();
    act_g.sort();
    if act_g != exp_g {
        return Err((format!("gaps at {exp_g:?}"), format!("{act_g:?}")));
    }
    Ok(())
}


/// C05, second sentence, taken literally on a rule-only DST zone: every valid result of the search, converted back with the same
/// zone (DateTime::from_timespec), reproduces the searched fields and the returned local time type.  Replays known finding F5.
fn eval_c05_roundtrip(x: &[i128]) -> Result<(), Mismatch> {
    let a = dec_alt(x);
    let local = x[12];
    let alt = match real_alt(&a) {
        Some(Ok(alt)) => alt,
        _ => return Ok(()),
    };
    let types = [*alt.std(), *alt.dst()];
    let rule = Some(TransitionRule::Alternate(alt));
    let tz = match TimeZoneRef::new(&[], &types, &[], &rule) {
        Ok(tz) => tz,
        Err(_) => return Ok(()),
    };
    let f = o::fields(local);
    let list = match DateTime::find(f.0 as i32, f.1 as u8, f.2 as u8, f.3 as u8, f.4 as u8, f.5 as u8, 0, tz) {
        Ok(l) => l.into_inner(),
        Err(_) => return Ok(()),
    };
    for k in list {
        if let FoundDateTimeKind::Normal(d) = k {
            let want = format!("from_timespec({}) = Ok with fields {:?} and is_dst {}", d.unix_time(), (f.0, f.1, f.2, f.3, f.4, f.5), d.local_time_type().is_dst());
            match DateTime::from_timespec(d.unix_time(), 0, tz) {
                Ok(b) => {
                    let got = (b.year() as i128, b.month() as i128, b.month_day() as i128, b.hour() as i128, b.minute() as i128, b.second() as i128);
                    if got != (f.0, f.1, f.2, f.3, f.4, f.5) || b.local_time_type().is_dst() != d.local_time_type().is_dst() {
                        return Err((want, format!("Ok with fields {:?} and is_dst {}", got, b.local_time_type().is_dst())));
                    }
                }
                Err(e) => return Err((want, format!("Err({e:?})"))),
            }
        }
    }
    Ok(())
}

/// C06 at the junction of a transition table with a trailing DST rule: the last table transition sits exactly on a
/// rule-generated instant; a local time in that gap is reported by exactly one Skipped entry and nothing else, a local
/// time in the fold at a backward junction by exactly two valid results
fn gen_c06_junction(_rng: &mut Rng, _n: usize, emit: &mut dyn FnMut(Vec<i128>) -> bool) {
    for y in [2021i128, 2037] {
        for south in 0..2i128 {
            for last_is_start in 0..2i128 {
                for dl in [0i128, 1, 1800, 3599] {
                    if !emit(vec![y, south, last_is_start, dl]) {
                        return;
                    }
                }
            }
        }
    }
}

fn eval_c06_junction(x: &[i128]) -> Result<(), Mismatch> {
    let (y, south, last_is_start, dl) = (x[0], x[1], x[2], x[3]);
    let a = if south == 1 {
        o::Alt { std_off: 36000, dst_off: 39600, start: o::Day::M(10, 1, 0), start_time: 7200, end: o::Day::M(4, 1, 0), end_time: 10800 }
    } else {
        o::Alt { std_off: 3600, dst_off: 7200, start: o::Day::M(3, 5, 0), start_time: 7200, end: o::Day::M(10, 5, 0), end_time: 10800 }
    };
    // table: the transitions of year y up to and including the junction instant, in chronological order
    let mut evs = vec![(a.s(y), 1usize), (a.e(y), 0usize)];
    evs.sort();
    let last_ev = if last_is_start == 1 { (a.s(y), 1usize) } else { (a.e(y), 0usize) };
    let trans: Vec<(i128, usize)> = evs.into_iter().filter(|e| e.0 <= last_ev.0).collect();
    let first_type = 1 - trans[0].1;
    let b = Built {
        leaps: vec![],
        trans: trans.iter().map(|t| Transition::new(t.0 as i64, t.1)).collect(),
        types: vec![LocalTimeType::new(a.std_off as i32, false, Some(b"STD")).unwrap(), LocalTimeType::new(a.dst_off as i32, true, Some(b"DST")).unwrap()],
        rule: Some(TransitionRule::Alternate(real_alt(&a).unwrap().map_err(|e| ("rule accepted".to_string(), format!("{e:?}")))?)),
    };
    // the zone's first type is type 0 = STD; make the table start accordingly
    if first_type != 0 {
        return Ok(());
    }
    let tz = TimeZoneRef::new(&b.trans, &b.types, &b.leaps, &b.rule).map_err(|e| ("zone accepted".to_string(), format!("Err({e:?})")))?;
    let t = last_ev.0;
    let (p, q) = if last_ev.1 == 1 { (a.std_off, a.dst_off) } else { (a.dst_off, a.std_off) };
    let forward = q > p;
    let local = if forward { t + p + dl } else { t + q + dl };
    let f = o::fields(local);
    let v = DateTime::find(f.0 as i32, f.1 as u8, f.2 as u8, f.3 as u8, f.4 as u8, f.5 as u8, 0, tz).map_err(|e| ("search Ok".to_string(), format!("Err({e:?})")))?.into_inner();
    let normals: Vec<i128> = v.iter().filter_map(|k| match k { FoundDateTimeKind::Normal(d) => Some(d.unix_time() as i128), _ => None }).collect();
    let gaps: Vec<i128> = v.iter().filter_map(|k| match k { FoundDateTimeKind::Skipped { before_transition, .. } => Some(before_transition.unix_time() as i128), _ => None }).collect();
    if forward {
        if !normals.is_empty() || gaps != vec![t] {
            return Err((format!("exactly one gap entry at {t}, no valid result"), format!("valid {normals:?} gaps {gaps:?}")));
        }
    } else {
        let mut want = vec![local - p, local - q];
        want.sort();
        if normals != want || !gaps.is_empty() {
            return Err((format!("valid results {want:?}, no gap"), format!("valid {normals:?} gaps {gaps:?}")));
        }
    }
    Ok(())
}

fn gen_none(_: &mut Rng, _: usize, _: &mut dyn FnMut(Vec<i128>) -> bool) {}

// ----------------------------------------------------------------------------------------------

const PROBES: &[Probe] = &[
    Probe { name: "C01/from_timespec", property: "C01", gen: gen_c01, eval: eval_c01 },
    Probe { name: "C02/new_unix_time", property: "C02", gen: gen_fields, eval: eval_c02 },
    Probe { name: "C02/ord", property: "C02", gen: gen_c02_ord, eval: eval_c02_ord },
    Probe { name: "C03/lookup", property: "C03", gen: gen_c03, eval: eval_c03 },
    Probe { name: "C04/rule", property: "C04", gen: gen_c04, eval: eval_c04 },
    Probe { name: "C04/rule_full", property: "-", gen: gen_none, eval: eval_c04_full },
    Probe { name: "C05/table_search", property: "C05", gen: gen_c14_search, eval: eval_c05_table },
    Probe { name: "C05/rule_search", property: "C05", gen: gen_c05_rule, eval: eval_c05_rule },
    Probe { name: "C05/rule_search_full", property: "-", gen: gen_none, eval: eval_c05_rule_full },
    Probe { name: "C05/roundtrip_full", property: "-", gen: gen_none, eval: eval_c05_roundtrip },
    Probe { name: "C06/table_search", property: "C06", gen: gen_c14_search, eval: eval_c05_table },
    Probe { name: "C06/rule_search", property: "C06", gen: gen_c05_rule, eval: eval_c05_rule },
    Probe { name: "C06/junction_gap", property: "C06", gen: gen_c06_junction, eval: eval_c06_junction },
    Probe { name: "C06/buffer_accessors", property: "C06", gen: gen_c14_search, eval: eval_c17 },
    Probe { name: "C05/junction_gap", property: "C05", gen: gen_c06_junction, eval: eval_c06_junction },
    Probe { name: "C11/new", property: "C11", gen: gen_c11, eval: eval_c11 },
    Probe { name: "C12/transition_instant", property: "C12", gen: gen_c12, eval: eval_c12 },
    Probe { name: "C12/junction_roundtrip", property: "C12", gen: gen_c12_junction, eval: eval_c12_junction },
    Probe { name: "C13/new", property: "C13", gen: gen_c13, eval: eval_c13 },
    Probe { name: "C13/alt_rule_consistency", property: "C13", gen: gen_c13_alt, eval: eval_c13_alt },
    Probe { name: "C14/new", property: "C14", gen: gen_c14_new, eval: eval_c14_new },
    Probe { name: "C14/from_timespec_and_local", property: "C14", gen: gen_c14_ts, eval: eval_c14_ts },
    Probe { name: "C14/search_entries", property: "C14", gen: gen_c14_search, eval: eval_c14_search },
    Probe { name: "C17/buffer_vs_alloc", property: "C17", gen: gen_c14_search, eval: eval_c17 },
    Probe { name: "C16/split", property: "C16", gen: gen_c16, eval: eval_c16 },
];

fn json_str(s: &str) -> String {
    let mut o = String::from("\"");
    for c in s.chars() {
        match c {
            '"' => o.push_str("\\\""),
            '\\' => o.push_str("\\\\"),
            '\n' => o.push_str("\\n"),
            c => o.push(c),
        }
    }
    o.push('"');
    o
}

fn main() {
    let args: Vec<String> = std::env::args().collect();
    // a panic inside the library is itself a finding: report it as the actual outcome
    if std::env::var("REPLAY_SHOW_PANIC").is_err() { std::panic::set_hook(Box::new(|_| {})); }
    match args.get(1).map(|s| s.as_str()) {
        Some("probe") => {
            let pid = &args[2];
            let seed: u64 = args.get(3).and_then(|s| s.parse().ok()).unwrap_or(0);
            let budget: usize = args.get(4).and_then(|s| s.parse().ok()).unwrap_or(2000);
            let mut evals = 0usize;
            let mut distinct = std::collections::HashSet::new();
            let mut samples: Vec<String> = Vec::new();
            for p in PROBES.iter().filter(|p| p.property == pid.as_str() || p.name == pid.as_str()) {
                let mut rng = Rng(seed.wrapping_mul(0x9E3779B97F4A7C15) ^ 0xD1B54A32D192ED03 | 1);
                let mut hit: Option<(Vec<i128>, Mismatch)> = None;
                let mut taken = 0;
                (p.gen)(&mut rng, budget, &mut |inp: Vec<i128>| {
                    evals += 1;
                    if taken < 2 && evals % 97 == 5 {
                        taken += 1;
                        samples.push(format!("{{\"probe\":{},\"inputs\":[{}]}}", json_str(p.name), inp.iter().map(|v| v.to_string()).collect::<Vec<_>>().join(",")));
                    }
                    distinct.insert(inp.clone());
                    let inp2 = inp.clone();
                    let res = std::panic::catch_unwind(move || (p.eval)(&inp2));
                    match res {
                        Ok(Ok(())) => true,
                        Ok(Err(m)) => {
                            hit = Some((inp, m));
                            false
                        }
                        Err(_) => {
                            hit = Some((inp, ("no panic".into(), "PANIC in library code".into())));
                            false
                        }
                    }
                });
                if let Some((inp, (e, a))) = hit {
                    let ints: Vec<String> = inp.iter().map(|v| v.to_string()).collect();
                    println!("{{\"found\":true,\"probe\":{},\"inputs\":[{}],\"expected\":{},\"actual\":{},\"evaluations\":{}}}", json_str(p.name), ints.join(","), json_str(&e), json_str(&a), evals);
                    return;
                }
            }
            println!("{{\"found\":false,\"evaluations\":{},\"distinct\":{},\"samples\":[{}]}}", evals, distinct.len(), samples.join(","));
        }
        Some("run") => {
            let name = &args[2];
            let inp: Vec<i128> = args[3].split(',').filter(|s| !s.is_empty()).map(|s| s.trim().parse().expect("integer")).collect();
            let p = PROBES.iter().find(|p| p.name == name.as_str()).expect("unknown probe");
            let inp2 = inp.clone();
            let res = std::panic::catch_unwind(move || (p.eval)(&inp2));
            match res {
                Ok(Ok(())) => {
                    println!("{{\"reproduced\":false}}");
                }
                Ok(Err((e, a))) => {
                    println!("{{\"reproduced\":true,\"expected\":{},\"actual\":{}}}", json_str(&e), json_str(&a));
                    std::process::exit(1);
                }
                Err(_) => {
                    println!("{{\"reproduced\":true,\"expected\":\"no panic\",\"actual\":\"PANIC in library code\"}}");
                    std::process::exit(1);
                }
            }
        }
        _ => {
            eprintln!("usage: tzrs-replay probe <property> <seed> <budget> | run <probe> <i1,i2,...>");
            std::process::exit(2);
        }
    }
}
