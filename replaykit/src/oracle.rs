//! Executable oracle: a second, independent transcription of the specification in i128 arithmetic.
//! Used ONLY to confirm counterexamples and for the optional cross-validation of the thorough tier;
//! it never decides that a property holds.

pub fn leap(y: i128) -> bool {
    y.rem_euclid(400) == 0 || (y.rem_euclid(4) == 0 && y.rem_euclid(100) != 0)
}

pub fn dim(m: i128, lp: bool) -> i128 {
    match m {
        2 => if lp { 29 } else { 28 },
        4 | 6 | 9 | 11 => 30,
        _ => 31,
    }
}

pub fn cum(m: i128, lp: bool) -> i128 {
    (1..m).map(|k| dim(k, lp)).sum()
}

/// days from 1970-01-01 to y-01-01, by counting leap years (not the closed form used in the Verus spec)
pub fn dby(y: i128) -> i128 {
    // number of leap years in [1970, y) for y >= 1970, minus the number in [y, 1970) otherwise
    fn leaps_before(y: i128) -> i128 {
        // leap years in (-inf, y) relative to year 0 (proleptic), via floor counts
        let z = y - 1;
        z.div_euclid(4) - z.div_euclid(100) + z.div_euclid(400)
    }
    365 * (y - 1970) + leaps_before(y) - leaps_before(1970)
}

pub fn valid_date(y: i128, m: i128, d: i128) -> bool {
    (1..=12).contains(&m) && 1 <= d && d <= dim(m, leap(y))
}

pub fn days_civil(y: i128, m: i128, d: i128) -> i128 {
    dby(y) + cum(m, leap(y)) + d - 1
}

pub fn secs(y: i128, m: i128, d: i128, h: i128, mi: i128, s: i128) -> i128 {
    ((days_civil(y, m, d) * 24 + h) * 60 + mi) * 60 + s
}

pub fn utc_min() -> i128 {
    dby(-(1i128 << 31)) * 86400
}

pub fn utc_max() -> i128 {
    dby(1i128 << 31) * 86400 - 1
}

/// calendar fields of instant t: search for the year by bisection on dby, then month, day (no closed form)
pub fn fields(t: i128) -> (i128, i128, i128, i128, i128, i128) {
    let day = t.div_euclid(86400);
    let sod = t.rem_euclid(86400);
    let (mut lo, mut hi) = (-(1i128 << 62), 1i128 << 62);
    while hi - lo > 1 {
        let mid = (lo + hi).div_euclid(2);
        if dby(mid) <= day { lo = mid } else { hi = mid }
    }
    let y = lo;
    let mut rem = day - dby(y);
    let mut m = 1;
    while rem >= dim(m, leap(y)) {
        rem -= dim(m, leap(y));
        m += 1;
    }
    (y, m, rem + 1, sod / 3600, (sod / 60) % 60, sod % 60)
}

pub fn weekday(daynum: i128) -> i128 {
    (4 + daynum).rem_euclid(7)
}

// ---- leap seconds: (time, correction) records -------------------------------------------------

pub fn leaps_wf(s: &[(i128, i128)]) -> bool {
    if s.is_empty() {
        return true;
    }
    if !(s[0].0 >= 0 && (s[0].1 == 1 || s[0].1 == -1)) {
        return false;
    }
    s.windows(2).all(|w| w[1].0 - w[0].0 >= 2419199 && (w[1].1 - w[0].1).abs() == 1)
}

/// count -> UTC
pub fn g(s: &[(i128, i128)], t: i128) -> i128 {
    let mut corr = 0;
    let mut prev = 0;
    for &(l, c) in s {
        let applies = if c > prev { l < t } else { l <= t };
        if applies {
            corr = c;
        }
        prev = c;
    }
    t - corr
}

/// UTC -> count: the largest t with g(t) <= u (g moves by 0, 1 or 2 per step and |corr| <= len)
pub fn f(s: &[(i128, i128)], u: i128) -> i128 {
    let n = s.len() as i128 + 2;
    let mut t = u + n;
    while g(s, t) > u {
        t -= 1;
    }
    t
}

// ---- POSIX rules ------------------------------------------------------------------------------

#[derive(Clone, Copy, Debug, PartialEq)]
pub enum Day {
    J1(i128),
    J0(i128),
    M(i128, i128, i128),
}

pub fn rule_daynum(d: Day, y: i128) -> i128 {
    match d {
        Day::J1(n) => dby(y) + n - 1 + if leap(y) && n >= 60 { 1 } else { 0 },
        Day::J0(n) => dby(y) + n,
        Day::M(m, w, wd) => {
            let len = dim(m, leap(y));
            let mut hits: Vec<i128> = (1..=len).filter(|&dd| weekday(days_civil(y, m, dd)) == wd).collect();
            let dd = if w == 5 { hits.pop().unwrap() } else { hits[(w - 1) as usize] };
            days_civil(y, m, dd)
        }
    }
}

#[derive(Clone, Copy, Debug)]
pub struct Alt {
    pub std_off: i128,
    pub dst_off: i128,
    pub start: Day,
    pub start_time: i128,
    pub end: Day,
    pub end_time: i128,
}

impl Alt {
    pub fn s(&self, y: i128) -> i128 {
        rule_daynum(self.start, y) * 86400 + self.start_time - self.std_off
    }
    pub fn e(&self, y: i128) -> i128 {
        rule_daynum(self.end, y) * 86400 + self.end_time - self.dst_off
    }
    /// the pattern of start/end instants repeats with the 400-year Gregorian cycle
    pub fn start_first(&self) -> bool {
        (2000..2400).all(|y| self.s(y) <= self.e(y))
    }
    pub fn end_first(&self) -> bool {
        (2000..2400).all(|y| self.e(y) <= self.s(y))
    }
    pub fn order_stable(&self) -> bool {
        let ys = 2000..2401;
        (self.start_first() || self.end_first())
            && (ys.clone().all(|y| self.e(y) <= self.s(y + 1)) || ys.clone().all(|y| self.s(y + 1) <= self.e(y)))
            && (ys.clone().all(|y| self.s(y) <= self.e(y + 1)) || ys.clone().all(|y| self.e(y + 1) <= self.s(y)))
    }
    /// the two interleaving patterns named by C04's quantifier (S<=E<=S' in every year, or E<=S<=E')
    pub fn interleaving(&self) -> bool {
        (2000..2400).all(|y| self.s(y) <= self.e(y) && self.e(y) <= self.s(y + 1)) || (2000..2400).all(|y| self.e(y) <= self.s(y) && self.s(y) <= self.e(y + 1))
    }
    pub fn ranges_ok(&self) -> bool {
        -90000 < self.std_off && self.std_off < 93600 && -90000 < self.dst_off && self.dst_off < 93600 && self.start_time.abs() < 604800 && self.end_time.abs() < 604800
    }
    pub fn in_dst(&self, u: i128) -> bool {
        let c = fields(u).0;
        if self.start_first() {
            (c - 3..=c + 3).any(|y| self.s(y) <= u && u < self.e(y))
        } else {
            (c - 3..=c + 3).any(|y| self.s(y) <= u && u < self.e(y + 1))
        }
    }
    pub fn defect_class(&self, u: i128) -> bool {
        let c = fields(u).0;
        !self.start_first() && self.s(c) == self.e(c)
    }
}
